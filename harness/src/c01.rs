//! C01 - observer contract under misbehaving sources (DESIGN.md 5.1)

use crate::common::*;
use crate::json::Json;
use crate::pipe;
use crate::rec::*;
use crate::seq::*;
use rxsim_rt::prng::Rng;
use rxsim_rt::RunCfg;

pub struct C01;

pub fn all_unary() -> Vec<&'static str> {
  pipe::UNARY.to_vec()
}

pub fn gen_sources(rng: &mut Rng, nsrc: usize, maxlen: u64, ill: bool, modes: &[Mode]) -> Vec<SrcSpec> {
  (0..nsrc)
    .map(|i| {
      let mode = rng.pick(modes).clone();
      let nscripts = if rng.below(4) == 0 { 2 } else { 1 };
      let scripts = (0..nscripts)
        .map(|k| {
          let base = (i as i64 + 1) * 100 + k as i64 * 20;
          if ill {
            gen_ill_script(rng, base, maxlen)
          } else {
            gen_script(rng, base, maxlen, true)
          }
        })
        .collect();
      SrcSpec { mode, scripts }
    })
    .collect()
}

pub fn spec_to_json(pipeline: Json, sources: &[SrcSpec], order: &[i64], extra: Vec<(&str, Json)>) -> Json {
  let mut v = vec![
    ("pipeline", pipeline),
    ("sources", Json::arr(sources.iter(), src_to_json)),
    ("order", Json::arr(order.iter(), |x| Json::Int(*x))),
  ];
  v.extend(extra);
  Json::obj(v)
}

impl Family for C01 {
  fn name(&self) -> &'static str {
    "c01-observer-contract"
  }
  fn threaded(&self) -> bool {
    false
  }
  fn gen(&self, rng: &mut Rng, tier: Tier) -> Json {
    let nsrc = rng.range(1, 3) as usize;
    let depth = if tier == Tier::Quick { rng.below(4) } else { rng.below(6) } as u32;
    let unary = all_unary();
    let g = pipe::GenCfg { nsrc, unary: &unary, multi: pipe::MULTI, trig: pipe::TRIG, news: &["just", "from_iter", "empty", "never", "error", "range", "start"], max_depth: depth };
    let mut next_src = 0;
    // the degenerate pipeline: the subscriber sits directly on the source
    let pipeline = if rng.below(8) == 0 { Json::obj(vec![("src", Json::Int(0))]) } else { pipe::gen_node(rng, &g, depth, &mut next_src) };
    let sources = gen_sources(rng, nsrc, 4, true, &[Mode::Hot, Mode::Hot, Mode::Cold, Mode::Subject]);
    let order = gen_order(rng, &sources, 1);
    // re-entrant ill-formed source: it emits again while the subscriber's callback is running
    let mut re = Vec::new();
    if rng.below(4) == 0 {
      for _ in 0..rng.range(1, 2) {
        re.push(Json::obj(vec![("on", Json::str(if rng.below(3) == 0 { "next" } else { "terminal" })), ("do", Json::Int(rng.below(nsrc as u64) as i64))]));
      }
    }
    spec_to_json(pipeline, &sources, &order, vec![("reenter", Json::Arr(re))])
  }
  fn exec(&self, w: &Json, cfg: RunCfg) -> RunOut {
    let spec = match spec_from_json(w) {
      Some(s) => s,
      None => return RunOut::invalid(),
    };
    let mut cfg = cfg;
    cfg.step_budget = 60_000;
    let r = run_seq(&spec, cfg);
    if !r.built {
      return RunOut::invalid();
    }
    let history = history(&r);
    let mut v = Vec::new();
    let blame = blame_of(&spec.pipeline);
    // blocked runs (self-deadlock / livelock / panic) are C07's business: DESIGN.md 4.6
    if r.res.outcome.is_ok() {
      let evs = r.rec.events();
      if let Some(b) = contract_breach(&evs) {
        let class = if evs.iter().filter(|e| e.ev.is_terminal()).count() > 1 { "terminal-twice" } else { "event-after-terminal" };
        v.push(Violation::new(class, &blame, format!("pipeline {}: {}", pipe::show(&spec.pipeline), b)));
      }
      if let Some(t) = evs.iter().find(|e| e.ev.is_terminal()) {
        if let Some((s, _)) = r.samples.iter().find(|(s, b)| *s > t.seq_out && *b) {
          v.push(Violation::new("subscribed-after-terminal", &blame, format!("pipeline {}: Subscription::is_subscribed() is true at {} after the terminal {} was delivered at {}", pipe::show(&spec.pipeline), s, t.ev.show(), t.seq_in)));
        }
      }
    }
    let reach = vec![
      ("c01-source-emitted-after-its-terminal", r.src_logs.iter().any(|l| {
        let l = l.lock().unwrap();
        let mut seen = std::collections::BTreeSet::new();
        l.emits.iter().any(|e| {
          let was = seen.contains(&e.sub);
          if !matches!(e.step, Step::N(_)) {
            seen.insert(e.sub);
          }
          was
        })
      }) as u64),
      ("c01-terminal-delivered", r.rec.events().iter().any(|e| e.ev.is_terminal()) as u64),
      ("c01-run-blocked", (!r.res.outcome.is_ok()) as u64),
    ];
    RunOut { fingerprint: fp(&history), res: r.res, violations: v, invalid: false, reach, history }
  }
  fn shrink(&self, w: &Json) -> Vec<Json> {
    shrink_pipeline_field(w)
  }
}

/// blame unit of a sequential pipeline: the outermost operator (the minimiser drives the
/// pipeline towards the single stage that still fails)
pub fn blame_of(p: &Json) -> String {
  if let Some(x) = p.get("op").and_then(|x| x.as_str()) {
    return x.to_string();
  }
  if let Some(x) = p.get("multi").and_then(|x| x.as_str()) {
    return x.to_string();
  }
  if let Some(x) = p.get("trig").and_then(|x| x.as_str()) {
    return x.to_string();
  }
  if let Some(x) = p.get("new").and_then(|x| x.as_str()) {
    return x.to_string();
  }
  "direct".to_string()
}

pub fn shrink_pipeline_field(w: &Json) -> Vec<Json> {
  let mut out = Vec::new();
  if let (Json::Obj(m), Some(p)) = (w, w.get("pipeline")) {
    for c in pipe::node_shrinks(p) {
      let mut m2 = m.clone();
      m2.insert("pipeline".into(), c);
      out.push(Json::Obj(m2));
    }
  }
  out
}

//! C03 - combining operators interleave, pair and switch their inputs as defined
//! (DESIGN.md 5.3, 4.4): stage-wise refinement. The judged combinator sits between probe
//! stages; its reference model is evaluated on the *recorded* histories of its input edges
//! (global arrival order, subscription instants) and must allow the recorded output history.

use crate::c01::{gen_sources, shrink_pipeline_field, spec_to_json};
use crate::common::*;
use crate::json::Json;
use crate::pipe;
use crate::rec::*;
use crate::seq::*;
use crate::val::*;
use rxsim_rt::prng::Rng;
use rxsim_rt::RunCfg;

pub struct C03;

const JUDGED_MULTI: &[&str] = &["merge", "concat", "zip", "combine_latest", "amb", "sequence_equal"];
const JUDGED_TRIG: &[&str] = &["take_until", "skip_until", "sample"];
const CONTEXT_OPS: &[&str] = &["map", "filter", "scan", "skip", "distinct_until_changed", "tap", "start_with", "take", "buffer_with_count", "default_if_empty", "map_id"];
const DOWN_OPS: &[&str] = &["map_id", "tap", "materialize", "map_id"];

/// the judged node: the one right below probe 0
fn judged(p: &Json) -> Option<&Json> {
  if p.get("op").and_then(|x| x.as_str()) == Some("probe") && p.i("a") == 0 {
    return p.get("in");
  }
  p.get("in").and_then(judged)
}

type H = Vec<(u64, Ev)>;

fn show(h: &[(u64, Ev)]) -> String {
  h.iter().map(|(s, e)| format!("{}@{}", e.show(), s)).collect::<Vec<_>>().join(" ")
}

fn ints(h: &[(u64, Ev)]) -> Vec<(u64, Val)> {
  h.iter().filter_map(|(s, e)| if let Ev::Next(x) = e { Some((*s, x.clone())) } else { None }).collect()
}

fn terminal(h: &[(u64, Ev)]) -> Option<(u64, Ev)> {
  h.iter().find(|(_, e)| e.is_terminal()).cloned()
}

/// all input events merged into arrival order: (seq, input index, event)
fn arrivals(inputs: &[H]) -> Vec<(u64, usize, Ev)> {
  let mut v: Vec<(u64, usize, Ev)> = Vec::new();
  for (i, h) in inputs.iter().enumerate() {
    for (s, e) in h {
      v.push((*s, i, e.clone()));
    }
  }
  v.sort_by_key(|x| x.0);
  v
}

/// Compares an exactly determined expectation. `expected` carries the seq of the arrival that
/// causes each output; the output must equal it event by event.
fn exact(op: &str, expected: &[(u64, Ev)], out: &[(u64, Ev)], inputs: &[H]) -> Option<(String, String)> {
  let e: Vec<Ev> = expected.iter().map(|x| x.1.clone()).collect();
  let g: Vec<Ev> = out.iter().map(|x| x.1.clone()).collect();
  if e == g {
    return None;
  }
  let class = if g.len() < e.len() && e.starts_with(&g) {
    if e[g.len()].is_terminal() && g.len() + 1 == e.len() {
      "terminal-missing"
    } else {
      "output-missing"
    }
  } else if g.len() > e.len() && g.starts_with(&e) {
    "output-extra"
  } else {
    "output-differs"
  };
  Some((
    class.to_string(),
    format!(
      "{}: inputs {} ; the definition gives [{}], the operator emitted [{}]",
      op,
      inputs.iter().enumerate().map(|(i, h)| format!("#{}=[{}]", i, show(h))).collect::<Vec<_>>().join(" "),
      e.iter().map(|x| x.show()).collect::<Vec<_>>().join(" "),
      g.iter().map(|x| x.show()).collect::<Vec<_>>().join(" ")
    ),
  ))
}

fn model(op: &str, inputs: &[H], subscribed: &[Option<u64>], out: &H) -> Option<(String, String)> {
  let arr = arrivals(inputs);
  let n = inputs.len();
  match op {
    "merge" => {
      let mut exp: H = Vec::new();
      let mut done = vec![false; n];
      for (s, i, e) in &arr {
        match e {
          Ev::Next(_) => exp.push((*s, e.clone())),
          Ev::Error(_) => {
            exp.push((*s, e.clone()));
            return exact(op, &exp, out, inputs);
          }
          Ev::Complete => {
            done[*i] = true;
            if done.iter().all(|d| *d) {
              exp.push((*s, Ev::Complete));
              return exact(op, &exp, out, inputs);
            }
          }
        }
      }
      exact(op, &exp, out, inputs)
    }
    "concat" => {
      let mut exp: H = Vec::new();
      // input i+1 is subscribed no earlier than input i's completion
      for i in 1..n {
        if let Some(sub) = subscribed[i] {
          let prev_done = terminal(&inputs[i - 1]).filter(|t| t.1 == Ev::Complete).map(|t| t.0);
          if prev_done.map_or(true, |d| sub < d) {
            return Some((
              "concat-subscribed-early".into(),
              format!("concat subscribed input {} at {} although input {} {}", i, sub, i - 1, prev_done.map_or("had not completed".to_string(), |d| format!("only completed at {}", d))),
            ));
          }
        }
      }
      let mut cur = 0;
      for (s, i, e) in &arr {
        if *i != cur {
          // an input that is not the current one delivered something: cannot happen if it was
          // subscribed in time (checked above); treat as a difference
          exp.push((*s, Ev::Error(-99)));
          return exact(op, &exp, out, inputs);
        }
        match e {
          Ev::Next(_) => exp.push((*s, e.clone())),
          Ev::Error(_) => {
            exp.push((*s, e.clone()));
            return exact(op, &exp, out, inputs);
          }
          Ev::Complete => {
            cur += 1;
            if cur == n {
              exp.push((*s, Ev::Complete));
              return exact(op, &exp, out, inputs);
            }
          }
        }
      }
      exact(op, &exp, out, inputs)
    }
    "zip" | "combine_latest" => {
      // tuples with the seq of the arrival that completes them
      let mut exp_next: H = Vec::new();
      let mut err: Option<(u64, Ev)> = None;
      let mut first_complete: Option<u64> = None;
      let mut all_complete: Option<u64> = None;
      let mut done = vec![false; n];
      if op == "zip" {
        let mut q: Vec<std::collections::VecDeque<Val>> = vec![Default::default(); n];
        for (s, i, e) in &arr {
          match e {
            Ev::Next(x) => {
              q[*i].push_back(x.clone());
              while q.iter().all(|d| !d.is_empty()) {
                let t: Vec<Val> = q.iter_mut().map(|d| d.pop_front().unwrap()).collect();
                exp_next.push((*s, Ev::Next(Val::List(t))));
              }
            }
            Ev::Error(_) => {
              err = Some((*s, e.clone()));
              break;
            }
            Ev::Complete => {
              done[*i] = true;
              first_complete.get_or_insert(*s);
              if done.iter().all(|d| *d) {
                all_complete = Some(*s);
                break;
              }
            }
          }
        }
      } else {
        let mut latest: Vec<Option<Val>> = vec![None; n];
        for (s, i, e) in &arr {
          match e {
            Ev::Next(x) => {
              latest[*i] = Some(x.clone());
              if latest.iter().all(|l| l.is_some()) {
                exp_next.push((*s, Ev::Next(Val::List(latest.iter().map(|l| l.clone().unwrap()).collect()))));
              }
            }
            Ev::Error(_) => {
              err = Some((*s, e.clone()));
              break;
            }
            Ev::Complete => {
              done[*i] = true;
              first_complete.get_or_insert(*s);
              if done.iter().all(|d| *d) {
                all_complete = Some(*s);
                break;
              }
            }
          }
        }
      }
      // outputs: the tuples in order; an error at once; completion may come from the first input
      // completion on and must have come once all inputs completed (statement silent in between)
      let got_term = terminal(out);
      let cut = got_term.as_ref().map(|t| t.0).unwrap_or(u64::MAX);
      let must: Vec<Ev> = exp_next.iter().filter(|(s, _)| *s < cut).map(|x| x.1.clone()).collect();
      let got_next: Vec<Ev> = out.iter().filter(|(_, e)| !e.is_terminal()).map(|x| x.1.clone()).collect();
      let ins = inputs.iter().enumerate().map(|(i, h)| format!("#{}=[{}]", i, show(h))).collect::<Vec<_>>().join(" ");
      if got_next != must {
        let class = if op == "combine_latest" { "combine-latest-differs" } else { "zip-differs" };
        return Some((class.into(), format!("{}: inputs {} ; the definition gives [{}], the operator emitted [{}]", op, ins, must.iter().map(|x| x.show()).collect::<Vec<_>>().join(" "), show(out))));
      }
      match (&err, &got_term) {
        (Some((_, e)), Some((_, g))) if e == g => None,
        (Some((_, e)), g) => Some(("terminal-differs".into(), format!("{}: inputs {} ; an input failed with {}, the operator's terminal is {:?}", op, ins, e.show(), g.as_ref().map(|x| x.1.show())))),
        (None, Some((gs, Ev::Complete))) => {
          if first_complete.map_or(true, |f| *gs < f) {
            Some(("completed-too-early".into(), format!("{}: inputs {} ; completed at {} before any input had completed", op, ins, gs)))
          } else {
            None
          }
        }
        (None, Some((_, g))) => Some(("terminal-differs".into(), format!("{}: inputs {} ; no input failed, yet the operator signalled {}", op, ins, g.show()))),
        (None, None) => {
          if all_complete.is_some() {
            Some(("terminal-missing".into(), format!("{}: inputs {} ; every input completed, the operator never did: [{}]", op, ins, show(out))))
          } else {
            None
          }
        }
      }
    }
    "amb" => {
      // the input whose first signal arrived first is mirrored, completion included
      let exp: H = match arr.first() {
        Some((_, w, _)) => {
          let mut h: H = Vec::new();
          for (s, e) in &inputs[*w] {
            h.push((*s, e.clone()));
            if e.is_terminal() {
              break;
            }
          }
          h
        }
        None => Vec::new(),
      };
      exact(op, &exp, out, inputs)
    }
    "sequence_equal" => {
      let ins = inputs.iter().enumerate().map(|(i, h)| format!("#{}=[{}]", i, show(h))).collect::<Vec<_>>().join(" ");
      // an input error is forwarded
      if let Some((s, _, e)) = arr.iter().find(|(_, _, e)| matches!(e, Ev::Error(_))) {
        let got_t = terminal(out);
        // a verdict may legitimately have been given before the error arrived
        if got_t.as_ref().map_or(false, |t| t.0 < *s) {
          return None;
        }
        return if got_t.as_ref().map(|t| &t.1) == Some(e) { None } else { Some(("terminal-differs".into(), format!("sequence_equal: inputs {} ; an input failed with {}, output [{}]", ins, e.show(), show(out)))) };
      }
      let all_done = inputs.iter().all(|h| terminal(h).map_or(false, |t| t.1 == Ev::Complete));
      let seqs: Vec<Vec<Val>> = inputs.iter().map(|h| ints(h).into_iter().map(|x| x.1).collect()).collect();
      let got: Vec<Ev> = out.iter().map(|x| x.1.clone()).collect();
      if all_done {
        let equal = seqs.windows(2).all(|w| w[0] == w[1]);
        let want = vec![Ev::Next(Val::Bool(equal)), Ev::Complete];
        if got != want {
          return Some(("sequence-equal-wrong".into(), format!("sequence_equal: inputs {} ; all completed, sequences are {}equal, output [{}]", ins, if equal { "" } else { "not " }, show(out))));
        }
        None
      } else {
        // not all inputs completed: nothing, or an early `false` once a mismatch is determined
        if got.is_empty() {
          return None;
        }
        let mismatch = (0..n).any(|a| (0..n).any(|b| a < b && seqs[a].iter().zip(seqs[b].iter()).any(|(x, y)| x != y)))
          || (0..n).any(|a| (0..n).any(|b| a != b && terminal(&inputs[a]).is_some() && seqs[b].len() > seqs[a].len()));
        if got == vec![Ev::Next(Val::Bool(false)), Ev::Complete] && mismatch {
          None
        } else {
          Some(("sequence-equal-wrong".into(), format!("sequence_equal: inputs {} ; not every input has completed and no mismatch is determined, yet the output is [{}]", ins, show(out))))
        }
      }
    }
    "take_until" | "skip_until" | "sample" => {
      let (src, trig) = (0usize, 1usize);
      let mut exp: H = Vec::new();
      let mut open = op != "skip_until"; // take_until starts open, skip_until closed
      let mut slot: Option<Val> = None;
      let mut trig_terminal: Option<u64> = None;
      for (s, i, e) in &arr {
        if *i == trig {
          match e {
            Ev::Next(_) => match op {
              "take_until" => {
                exp.push((*s, Ev::Complete));
                return exact(op, &exp, out, inputs);
              }
              "skip_until" => open = true,
              _ => {
                if let Some(x) = slot.take() {
                  exp.push((*s, Ev::Next(x)));
                }
              }
            },
            _ => {
              trig_terminal.get_or_insert(*s);
            }
          }
        } else if *i == src {
          match e {
            Ev::Next(x) => match op {
              "sample" => slot = Some(x.clone()),
              _ => {
                if open {
                  exp.push((*s, e.clone()));
                }
              }
            },
            _ => {
              exp.push((*s, e.clone()));
              break;
            }
          }
        }
      }
      // the trigger's own terminals have no effect: the source is gated by the trigger's *items*
      // (DESIGN 4.7; tightened after seeded change C03-m10 - a trigger that completes empty must
      // not cut the stream)
      let _ = trig_terminal;
      exact(op, &exp, out, inputs)
    }
    _ => None,
  }
}

impl Family for C03 {
  fn name(&self) -> &'static str {
    "c03-combining-operators"
  }
  fn threaded(&self) -> bool {
    false
  }
  fn gen(&self, rng: &mut Rng, tier: Tier) -> Json {
    if rng.below(6) == 0 {
      return gen_flat_map(rng, tier);
    }
    let trig = rng.below(3) == 0;
    let op = if trig { *rng.pick(JUDGED_TRIG) } else { *rng.pick(JUDGED_MULTI) };
    let n = if trig { 2 } else { rng.range(1, 4) as usize };
    let depth = if tier == Tier::Quick { 1 } else { 2 };
    let g = pipe::GenCfg { nsrc: n, unary: CONTEXT_OPS, multi: &[], trig: &[], news: &["just", "from_iter", "empty", "never", "error", "range"], max_depth: depth };
    let mut next_src = 0;
    let mut ins = Vec::new();
    for k in 0..n {
      let d = rng.below(depth as u64 + 1) as u32;
      let mut node = pipe::gen_node(rng, &g, d, &mut next_src);
      // an input may also be a creation function only (cold, runs to completion at subscribe time)
      if rng.below(6) == 0 {
        node = Json::obj(vec![("new", Json::str(*rng.pick(&["just", "from_iter", "empty", "never", "error"]))), ("a", if rng.below(2) == 0 { Json::Int(40 + k as i64) } else { Json::Arr(vec![Json::Int(41), Json::Int(42)]) })]);
      }
      ins.push(Json::obj(vec![("op", Json::str("probe")), ("a", Json::Int(k as i64 + 1)), ("in", node)]));
    }
    let j = if trig {
      Json::obj(vec![("trig", Json::str(op)), ("in", ins[0].clone()), ("by", ins[1].clone())])
    } else {
      Json::obj(vec![("multi", Json::str(op)), ("ins", Json::Arr(ins))])
    };
    let mut p = Json::obj(vec![("op", Json::str("probe")), ("a", Json::Int(0)), ("in", j)]);
    for _ in 0..rng.below(depth as u64 + 1) {
      p = Json::obj(vec![("op", Json::str(*rng.pick(DOWN_OPS))), ("a", Json::Int(rng.below(3) as i64)), ("in", p)]);
    }
    let mut sources = gen_sources(rng, n, 5, false, &[Mode::Hot, Mode::Hot, Mode::Cold, Mode::Subject]);
    // sequence_equal / zip are more interesting on similar inputs
    if (op == "sequence_equal" || op == "zip") && rng.below(2) == 0 {
      let base = sources[0].scripts[0].clone();
      for s in sources.iter_mut().skip(1) {
        let mut b = base.clone();
        match rng.below(4) {
          0 => {
            b.pop();
          }
          1 => b.insert(0, Step::N(777)),
          2 => {
            if let Some(Step::N(x)) = b.first_mut() {
              *x += 1;
            }
          }
          _ => {}
        }
        s.scripts = vec![b];
      }
    }
    let order = gen_order(rng, &sources, 0);
    // sometimes the subscriber steps a source again from inside its next callback: a further
    // event reaches the operator while the previous output is still being delivered
    let mut re = Vec::new();
    if rng.below(5) == 0 {
      for _ in 0..rng.range(1, 2) {
        re.push(Json::obj(vec![("on", Json::str("next")), ("do", Json::Int(rng.below(n as u64) as i64))]));
      }
    }
    spec_to_json(p, &sources, &order, vec![("reenter", Json::Arr(re))])
  }
  fn exec(&self, w: &Json, cfg: RunCfg) -> RunOut {
    let spec = match spec_from_json(w) {
      Some(s) => s,
      None => return RunOut::invalid(),
    };
    for s in &spec.sources {
      for sc in &s.scripts {
        let nterm = sc.iter().filter(|x| !matches!(x, Step::N(_))).count();
        if nterm > 1 || (nterm == 1 && matches!(sc.last(), Some(Step::N(_)))) {
          return RunOut::invalid();
        }
      }
    }
    if !spec.order.iter().all(|o| *o >= 0) {
      return RunOut::invalid();
    }
    let j = match judged(&spec.pipeline) {
      Some(j) => j.clone(),
      None => return RunOut::invalid(),
    };
    if j.get("op").and_then(|x| x.as_str()) == Some("flat_map") {
      let inner = j.get("in").cloned().unwrap_or(Json::Null);
      if inner.get("op").and_then(|x| x.as_str()) != Some("probe") || inner.i("a") != 1 || !spec.probe_inners {
        return RunOut::invalid();
      }
      let mut cfg = cfg;
      cfg.step_budget = 40_000;
      let r = run_seq(&spec, cfg);
      if !r.built {
        return RunOut::invalid();
      }
      let history = history(&r);
      let mut v = Vec::new();
      if let Some(o) = outcome_violation(&r.res, "flat_map") {
        v.push(o);
      } else if r.probes.len() >= 2 {
        let out: H = r.probes[0].events.iter().map(|e| (e.seq, e.ev.clone())).collect();
        let outer: H = r.probes[1].events.iter().map(|e| (e.seq, e.ev.clone())).collect();
        let inners: Vec<H> = r.inner_probes.iter().map(|p| p.events.iter().map(|e| (e.seq, e.ev.clone())).collect()).collect();
        // an inner that never got subscribed (created after the end) has no say
        if let Some((class, detail)) = model_flat_map(&outer, &inners, &out) {
          v.push(Violation::new(&class, "flat_map", detail));
        }
      }
      let reach = vec![("c03-flat_map-overlapping-hot-inners", (r.inner_probes.len() > 1) as u64)];
      return RunOut { fingerprint: fp(&history), res: r.res, violations: v, invalid: false, reach, history };
    }
    let (op, input_nodes): (String, Vec<Json>) = if let Some(m) = j.get("multi").and_then(|x| x.as_str()) {
      (m.to_string(), j.a("ins"))
    } else if let Some(t) = j.get("trig").and_then(|x| x.as_str()) {
      (t.to_string(), vec![j.get("in").cloned().unwrap_or(Json::Null), j.get("by").cloned().unwrap_or(Json::Null)])
    } else {
      return RunOut::invalid();
    };
    if !JUDGED_MULTI.contains(&op.as_str()) && !JUDGED_TRIG.contains(&op.as_str()) {
      return RunOut::invalid();
    }
    // every input edge carries probe k+1; the context above probe 0 is source-free and cannot end early
    for (k, inp) in input_nodes.iter().enumerate() {
      if inp.get("op").and_then(|x| x.as_str()) != Some("probe") || inp.i("a") != k as i64 + 1 {
        return RunOut::invalid();
      }
    }
    {
      let mut n = &spec.pipeline;
      while !(n.get("op").and_then(|x| x.as_str()) == Some("probe") && n.i("a") == 0) {
        match n.get("op").and_then(|x| x.as_str()) {
          Some(o) if DOWN_OPS.contains(&o) => {}
          _ => return RunOut::invalid(),
        }
        n = match n.get("in") {
          Some(x) => x,
          None => return RunOut::invalid(),
        };
      }
    }
    let mut cfg = cfg;
    cfg.step_budget = 40_000;
    let r = run_seq(&spec, cfg);
    if !r.built {
      return RunOut::invalid();
    }
    let history = history(&r);
    let mut v = Vec::new();
    if let Some(o) = outcome_violation(&r.res, &op) {
      // the operator's output is promised; a run that blocks does not deliver it
      v.push(o);
    } else if r.probes.len() > input_nodes.len() {
      let out: H = r.probes[0].events.iter().map(|e| (e.seq, e.ev.clone())).collect();
      let inputs: Vec<H> = (0..input_nodes.len()).map(|k| r.probes[k + 1].events.iter().filter(|e| e.sub == 0).map(|e| (e.seq, e.ev.clone())).collect()).collect();
      let subscribed: Vec<Option<u64>> = (0..input_nodes.len()).map(|k| r.probes[k + 1].subscribed.first().copied()).collect();
      // an input edge subscribed more than once is outside the model (not produced by the generator)
      if (0..input_nodes.len()).all(|k| r.probes[k + 1].subscribed.len() <= 1) {
        if let Some((class, detail)) = model(&op, &inputs, &subscribed, &out) {
          v.push(Violation::new(&class, &op, detail));
        }
      }
    }
    let reach = vec![
      ("c03-two-inputs-interleaved", {
        let a: Vec<usize> = if r.probes.len() > 2 { arrivals(&(1..r.probes.len()).map(|k| r.probes[k].events.iter().map(|e| (e.seq, e.ev.clone())).collect()).collect::<Vec<H>>()).iter().map(|x| x.1).collect() } else { vec![] };
        (a.windows(3).any(|w| w[0] != w[1] && w[1] != w[2])) as u64
      }),
      ("c03-output-terminal", r.probes.first().map_or(false, |p| p.events.iter().any(|e| e.ev.is_terminal())) as u64),
    ];
    RunOut { fingerprint: fp(&history), res: r.res, violations: v, invalid: false, reach, history }
  }
  fn shrink(&self, w: &Json) -> Vec<Json> {
    shrink_pipeline_field(w)
  }
  fn explains(&self, pred: &str, _w: &Json, v: &Violation) -> bool {
    match pred {
      // the observed output is what zip followed by the combiner produces
      "combine-latest-is-zip" => v.blame == "combine_latest",
      _ => false,
    }
  }
}

/// flat_map as the judged operator: outer = source 0 behind probe 1, inner observables from the
/// fixed family (cold ones, or hot source 1 subscribed once per outer item), each behind its own probe
fn gen_flat_map(rng: &mut Rng, _tier: Tier) -> Json {
  let hot_inner = rng.below(3) != 0;
  // a mod 7: 0..4 cold inner kinds, 5 = one hot source subscribed per item, 6 = a hot source chosen by the item
  let a = if hot_inner { *rng.pick(&[5 + 7i64, 6, 6]) } else { *rng.pick(&[0i64, 1, 2, 3, 4]) };
  let outer = Json::obj(vec![("op", Json::str("probe")), ("a", Json::Int(1)), ("in", Json::obj(vec![("src", Json::Int(0))]))]);
  let j = Json::obj(vec![("op", Json::str("flat_map")), ("a", Json::Int(a)), ("in", outer)]);
  let p = Json::obj(vec![("op", Json::str("probe")), ("a", Json::Int(0)), ("in", j)]);
  let nsrc = if a == 6 { rng.range(3, 4) as usize } else { 2 };
  let mut sources = gen_sources(rng, nsrc, 4, false, &[Mode::Hot]);
  // the outer items select the inner source (item mod (nsrc-1)); the inner sources: a few items, sometimes a terminal
  sources[0].scripts = vec![{
    let n = rng.range(1, 4);
    let mut s: Vec<Step> = (0..n).map(|i| Step::N(100 + rng.below(3) as i64 + 10 * i as i64)).collect();
    if rng.below(3) != 0 {
      s.push(Step::C);
    }
    s
  }];
  for k in 1..nsrc {
    sources[k].scripts = vec![gen_script(rng, 100 * (k as i64 + 1), 4, true)];
  }
  let order = gen_order(rng, &sources, 0);
  spec_to_json(p, &sources, &order, vec![("probe_inners", Json::Bool(true))])
}

fn model_flat_map(outer: &H, inners: &[H], out: &H) -> Option<(String, String)> {
  // like merge over a set that grows with every outer item
  let mut all: Vec<(u64, usize, Ev)> = Vec::new();
  for (s, e) in outer {
    all.push((*s, 0, e.clone()));
  }
  for (k, h) in inners.iter().enumerate() {
    for (s, e) in h {
      all.push((*s, k + 1, e.clone()));
    }
  }
  all.sort_by_key(|x| x.0);
  let mut exp: H = Vec::new();
  let mut outer_done = false;
  let mut created = 0usize;
  let mut inner_done = 0usize;
  let inputs: Vec<H> = std::iter::once(outer.clone()).chain(inners.iter().cloned()).collect();
  for (s, i, e) in &all {
    match (i, e) {
      (0, Ev::Next(_)) => created += 1,
      (_, Ev::Next(_)) => exp.push((*s, e.clone())),
      (_, Ev::Error(_)) => {
        exp.push((*s, e.clone()));
        return exact("flat_map", &exp, out, &inputs);
      }
      (0, Ev::Complete) => outer_done = true,
      (_, Ev::Complete) => inner_done += 1,
    }
    if outer_done && inner_done == created && matches!(e, Ev::Complete) {
      exp.push((*s, Ev::Complete));
      return exact("flat_map", &exp, out, &inputs);
    }
  }
  exact("flat_map", &exp, out, &inputs)
}

// ================================================================================================
// utils::ready_set_go subscribes before running its action

pub struct C03Rsg;

impl Family for C03Rsg {
  fn name(&self) -> &'static str {
    "c03-ready-set-go"
  }
  fn threaded(&self) -> bool {
    false
  }
  fn gen(&self, rng: &mut Rng, _tier: Tier) -> Json {
    Json::obj(vec![("script", script_to_json(&gen_script(rng, 100, 4, true))), ("via_map", Json::Bool(rng.below(2) == 0)), ("subject", Json::Bool(rng.below(2) == 0))])
  }
  fn exec(&self, w: &Json, cfg: RunCfg) -> RunOut {
    use another_rxrust::prelude::*;
    use std::sync::{Arc, Mutex};
    let script = match w.get("script").and_then(script_from_json) {
      Some(s) if s.len() <= 8 => s,
      _ => return RunOut::invalid(),
    };
    let nterm = script.iter().filter(|x| !matches!(x, Step::N(_))).count();
    if nterm > 1 || (nterm == 1 && matches!(script.last(), Some(Step::N(_)))) {
      return RunOut::invalid();
    }
    let via_map = w.b("via_map");
    let use_subject = w.b("subject");
    let rec = Recorder::new();
    let (rec2, sc) = (rec.clone(), script.clone());
    let res = rxsim_rt::run(cfg, move || {
      let log = Arc::new(Mutex::new(SrcLog::default()));
      if use_subject {
        let sb = subjects::Subject::<Val>::new();
        let (sb2, sc2) = (sb.clone(), sc.clone());
        let o = utils::ready_set_go(
          move || {
            for st in &sc2 {
              match st {
                Step::N(x) => sb2.next(Val::Int(*x)),
                Step::E(e) => sb2.error(mk_err(*e)),
                Step::C => sb2.complete(),
              }
            }
          },
          if via_map { sb.observable().map(|x: Val| x) } else { sb.observable() },
        );
        let _s = rec2.subscribe(&o);
      } else {
        let mut hot = HotSource::new();
        hot.log = log;
        let (h2, sc2) = (hot.clone(), sc.clone());
        let o = utils::ready_set_go(
          move || {
            for st in &sc2 {
              h2.step_all(st);
            }
          },
          if via_map { hot.observable().map(|x: Val| x) } else { hot.observable() },
        );
        let _s = rec2.subscribe(&o);
      }
    });
    let mut v = Vec::new();
    let want: Vec<Ev> = script
      .iter()
      .map(|s| match s {
        Step::N(x) => Ev::Next(Val::Int(*x)),
        Step::E(e) => Ev::Error(*e),
        Step::C => Ev::Complete,
      })
      .collect();
    let got: Vec<Ev> = rec.events().into_iter().map(|e| e.ev).collect();
    let shown = |x: &[Ev]| x.iter().map(|e| e.show()).collect::<Vec<_>>().join(" ");
    if let Some(o) = outcome_violation(&res, "ready_set_go") {
      v.push(o);
    } else if got != want {
      v.push(Violation::new("missed-events", "ready_set_go", format!("the action emitted [{}] into the observable, the subscriber received [{}]", shown(&want), shown(&got))));
    }
    let history = vec![format!("action emits [{}]; subscriber got [{}]", shown(&want), shown(&got))];
    RunOut { fingerprint: fnv(&history[0]), res, violations: v, invalid: false, reach: vec![], history }
  }
}

//! C04 - errors travel unchanged and recovery operators resubscribe as specified (DESIGN.md 5.4)
//!
//! Family "travel": a pipeline of non-handler operators; the error fault (a unique ErrTok) is
//! placed at EVERY position of the faulted source's script (enumerated inside one case) and each
//! variant is compared with the fault-free run cut at the same position.
//! Family "handlers": retry / retry_when / on_error_resume_next / materialize / dematerialize over
//! hot sources whose k-th subscription has its own script, against reference models with a
//! subscription counter.

use crate::c01::{blame_of, shrink_pipeline_field, spec_to_json};
use crate::common::*;
use crate::json::Json;
use crate::pipe;
use crate::rec::*;
use crate::seq::*;
use crate::val::*;
use rxsim_rt::prng::Rng;
use rxsim_rt::RunCfg;

pub struct C04Travel;

const NON_HANDLERS: &[&str] = &[
  "map", "filter", "take", "skip", "take_last", "skip_last", "take_while", "skip_while", "first", "last", "element_at",
  "distinct_until_changed", "scan", "reduce", "count", "sum", "sum_and_count", "min", "max", "all", "contains", "default_if_empty",
  "ignore_elements", "start_with", "buffer_with_count", "window_with_count", "group_by", "tap", "map_to_any", "flat_map", "map_id",
];

const ERR_ID: i64 = 4242;

/// pipeline whose leftmost leaf on the `in` spine is source 0 (the faulted one)
fn gen_spine(rng: &mut Rng, depth: u32, nsrc: usize) -> Json {
  let mut p = Json::obj(vec![("src", Json::Int(0))]);
  let mut other = 1usize;
  for lvl in 0..depth {
    let r = rng.below(100);
    if lvl == 0 && other < nsrc && rng.below(6) == 0 {
      // amb right on the sources: the faulted source's error must travel iff it is the first to signal
      let sib = Json::obj(vec![("src", Json::Int(other as i64))]);
      other += 1;
      p = Json::obj(vec![("multi", Json::str("amb")), ("ins", Json::Arr(if rng.below(2) == 0 { vec![p, sib] } else { vec![sib, p] }))]);
      continue;
    }
    if r < 70 {
      let op = *rng.pick(NON_HANDLERS);
      let a = match op {
        "take" | "skip" | "take_last" | "skip_last" | "element_at" | "buffer_with_count" | "window_with_count" | "group_by" => rng.below(4) as i64,
        // cold inner kinds only
        "flat_map" => *rng.pick(&[0i64, 1, 2, 4]),
        _ => rng.below(30) as i64,
      };
      p = Json::obj(vec![("op", Json::str(op)), ("a", Json::Int(a)), ("in", p)]);
    } else if r < 88 && other < nsrc {
      // a combinator that forwards the errors of all its inputs
      let m = *rng.pick(&["merge", "zip", "concat", "combine_latest", "sequence_equal"]);
      let sib = Json::obj(vec![("src", Json::Int(other as i64))]);
      other += 1;
      p = Json::obj(vec![("multi", Json::str(m)), ("ins", Json::Arr(if m == "concat" || rng.below(2) == 0 { vec![p, sib] } else { vec![sib, p] }))]);
    } else if other < nsrc {
      let by = Json::obj(vec![("src", Json::Int(other as i64))]);
      other += 1;
      p = Json::obj(vec![("trig", Json::str(*rng.pick(&["take_until", "skip_until", "sample"]))), ("in", p), ("by", by)]);
    }
  }
  p
}

impl Family for C04Travel {
  fn name(&self) -> &'static str {
    "c04-error-travels"
  }
  fn threaded(&self) -> bool {
    false
  }
  fn gen(&self, rng: &mut Rng, tier: Tier) -> Json {
    let nsrc = rng.range(1, 3) as usize;
    let depth = rng.range(0, if tier == Tier::Quick { 3 } else { 5 }) as u32;
    let pipeline = gen_spine(rng, depth, nsrc);
    // source 0: items only (the fault is enumerated by exec); the others never fail
    let mut sources = Vec::new();
    for i in 0..nsrc {
      let n = rng.below(5);
      let mut s: Vec<Step> = (0..n).map(|k| Step::N((i as i64 + 1) * 100 + k as i64 + rng.below(2) as i64 * 3)).collect();
      if i > 0 && rng.below(2) == 0 {
        s.push(Step::C);
      }
      sources.push(SrcSpec { mode: if i == 0 { rng.pick(&[Mode::Hot, Mode::Hot, Mode::Subject, Mode::Cold]).clone() } else { rng.pick(&[Mode::Hot, Mode::Subject]).clone() }, scripts: vec![s] });
    }
    // source 0's script gets one extra slot so that "after the last item" is a position too
    let mut order = gen_order(rng, &sources, 1);
    if sources[0].mode == Mode::Cold {
      order.retain(|o| *o != 0);
    }
    spec_to_json(pipeline, &sources, &order, vec![])
  }
  fn exec(&self, w: &Json, cfg: RunCfg) -> RunOut {
    let spec = match spec_from_json(w) {
      Some(s) => s,
      None => return RunOut::invalid(),
    };
    if spec.sources.is_empty() || spec.sources[0].scripts.len() != 1 || spec.sources[0].scripts[0].iter().any(|s| !matches!(s, Step::N(_))) {
      return RunOut::invalid();
    }
    for s in spec.sources.iter().skip(1) {
      if s.scripts.iter().any(|sc| sc.iter().any(|x| matches!(x, Step::E(_)))) {
        return RunOut::invalid();
      }
    }
    // source 0 must sit where no operator discards its terminal by definition
    {
      fn ok(n: &Json, on_spine: bool) -> bool {
        if let Some(i) = n.get("src").and_then(|x| x.as_i64()) {
          return (i == 0) == on_spine || (i != 0);
        }
        if n.get("new").is_some() {
          return true;
        }
        if let Some(op) = n.get("op").and_then(|x| x.as_str()) {
          if !NON_HANDLERS.contains(&op) {
            return false;
          }
          if op == "flat_map" && n.i("a").rem_euclid(7) >= 5 {
            return false;
          }
          return n.get("in").map_or(false, |x| ok(x, on_spine));
        }
        if let Some(m) = n.get("multi").and_then(|x| x.as_str()) {
          if m == "amb" {
            // only directly on plain sources (who signals first is then read off the source logs)
            return n.a("ins").iter().all(|x| x.get("src").is_some());
          }
          let ins = n.a("ins");
          let has0 = |x: &Json| {
            let mut v = Vec::new();
            pipe::sources_used(x, 8, &mut v);
            v.contains(&0)
          };
          return ins.iter().all(|x| ok(x, on_spine && has0(x)));
        }
        if n.get("trig").is_some() {
          if n.s("trig") == "switch_on_next" {
            return false;
          }
          let by_has0 = {
            let mut v = Vec::new();
            if let Some(b) = n.get("by") {
              pipe::sources_used(b, 8, &mut v);
            }
            v.contains(&0)
          };
          return !by_has0 && n.get("in").map_or(false, |x| ok(x, on_spine)) && n.get("by").map_or(false, |x| ok(x, false));
        }
        false
      }
      let mut used = Vec::new();
      pipe::sources_used(&spec.pipeline, spec.sources.len(), &mut used);
      if used.iter().filter(|x| **x == 0).count() != 1 || !ok(&spec.pipeline, true) {
        return RunOut::invalid();
      }
    }
    let base = spec.sources[0].scripts[0].clone();
    let blame = blame_of(&spec.pipeline);
    let pshow = pipe::show(&spec.pipeline);
    let mut v = Vec::new();
    let mut history = Vec::new();
    let mut last_res = None;
    let mut fpv = 0u64;
    let mut delivered = 0u64;
    // every position of the faulted script
    for k in 0..=base.len() {
      // the payload type varies with the id (rec::mk_err): token struct, String, nested RxError
      let eid = ERR_ID + (k as i64 % 7);
      let mut with_err = spec.clone();
      let mut sc: Vec<Step> = base[..k].to_vec();
      sc.push(Step::E(eid));
      with_err.sources[0].scripts = vec![sc];
      let mut cut = spec.clone();
      cut.sources[0].scripts = vec![base[..k].to_vec()];
      // in the cut run the faulted source stays silent where the error would have been
      let mut c2 = cfg.clone();
      c2.step_budget = 40_000;
      let rb = run_seq(&with_err, c2.clone());
      if !rb.built {
        return RunOut::invalid();
      }
      let ra = run_seq(&cut, c2);
      let evb: Vec<Ev> = rb.rec.events().into_iter().map(|e| e.ev).collect();
      let eva_full = ra.rec.events();
      let show = |x: &[Ev]| x.iter().map(|e| e.show()).collect::<Vec<_>>().join(" ");
      history.push(format!("error at position {}: [{}]", k, show(&evb)));
      fpv = fpv.wrapping_mul(0x100000001B3) ^ fnv(&show(&evb));
      if !rb.res.outcome.is_ok() || !ra.res.outcome.is_ok() {
        last_res = Some(rb.res);
        continue;
      }
      // was the error really emitted into a live pipeline?
      let emitted = {
        let l = rb.src_logs[0].lock().unwrap();
        l.emits.iter().find(|e| e.step == Step::E(eid)).map(|e| (e.seq_start, e.sub_before))
      }
      .or_else(|| rb.subject_emits.iter().find(|e| e.src == 0 && e.step == Step::E(eid)).map(|e| (e.seq_start, e.observers_before > 0)));
      // under amb the error only has to travel when source 0 is the first input to signal
      let first_signal = |r: &SeqRun, i: usize| -> Option<u64> {
        let a = r.src_logs[i].lock().unwrap().emits.first().map(|e| e.seq_start);
        let b = r.subject_emits.iter().filter(|e| e.src == i).map(|e| e.seq_start).min();
        match (a, b) {
          (Some(x), Some(y)) => Some(x.min(y)),
          (x, y) => x.or(y),
        }
      };
      let has_amb = pshow.contains("amb(");
      let loses_amb = has_amb && {
        let mine = first_signal(&rb, 0);
        (1..spec.sources.len()).any(|i| match (mine, first_signal(&rb, i)) {
          (Some(m), Some(o)) => o <= m,
          (None, _) => true,
          _ => false,
        })
      };
      if loses_amb {
        last_res = Some(rb.res);
        continue;
      }
      if let Some((at, live)) = emitted {
        if live {
          // both runs are identical up to the injection instant
          let n_before = rb.rec.events().iter().filter(|e| e.seq_in < at).count();
          let prefix_b: Vec<Ev> = evb[..n_before].to_vec();
          let prefix_a: Vec<Ev> = eva_full.iter().take(n_before).map(|e| e.ev.clone()).collect();
          let ended_before = prefix_b.iter().any(|e| e.is_terminal());
          let n_err = evb.iter().filter(|e| **e == Ev::Error(eid)).count();
          if prefix_a != prefix_b {
            v.push(Violation::new("prefix-differs", &blame, format!("pipeline {}: with the error at position {} the events before it are [{}], without it [{}]", pshow, k, show(&prefix_b), show(&prefix_a))));
          } else if !ended_before {
            delivered += 1;
            let tail: Vec<Ev> = evb[n_before..].to_vec();
            if n_err != 1 || tail.last() != Some(&Ev::Error(eid)) {
              let class = if n_err > 1 {
                "error-duplicated"
              } else if tail.iter().any(|e| matches!(e, Ev::Error(x) if *x != eid)) {
                "error-payload-changed"
              } else if n_err == 0 {
                "error-swallowed"
              } else {
                "event-after-error"
              };
              v.push(Violation::new(
                class,
                &blame,
                format!("pipeline {}: source 0 raised ErrTok({}) at position {} (after [{}]); the subscriber then received [{}] - expected the very same error, once, as the last event", pshow, eid, k, show(&prefix_b), show(&tail)),
              ));
            } else if tail.iter().filter(|e| e.is_terminal()).count() != 1 {
              v.push(Violation::new("event-after-error", &blame, format!("pipeline {}: error at position {}: [{}]", pshow, k, show(&tail))));
            }
          }
        }
      }
      last_res = Some(rb.res);
    }
    let res = match last_res {
      Some(r) => r,
      None => return RunOut::invalid(),
    };
    let reach = vec![("c04-error-positions-judged", delivered), ("c04-error-positions-enumerated", base.len() as u64 + 1)];
    RunOut { fingerprint: fpv, res, violations: v, invalid: false, reach, history }
  }
  fn shrink(&self, w: &Json) -> Vec<Json> {
    shrink_pipeline_field(w)
  }
}

// ================================================================================================

pub struct C04Handlers;

const HANDLERS: &[&str] = &["retry", "retry_when", "on_error_resume_next", "materialize", "mat_demat"];

fn pred_allows(a: i64, id: i64) -> bool {
  match a.rem_euclid(4) {
    0 => true,
    1 => false,
    2 => id % 2 == 0,
    _ => id < 5,
  }
}

impl Family for C04Handlers {
  fn name(&self) -> &'static str {
    "c04-recovery-operators"
  }
  fn threaded(&self) -> bool {
    false
  }
  fn gen(&self, rng: &mut Rng, _tier: Tier) -> Json {
    let op = *rng.pick(HANDLERS);
    let a = match op {
      "retry" => rng.range(0, 4) as i64,
      "retry_when" => rng.below(4) as i64,
      // resume functions: empty, just, two items, erroring source, never
      "on_error_resume_next" => *rng.pick(&[0i64, 1, 2, 3, 4]),
      _ => 0,
    };
    // optionally a value-preserving operator between source and handler / after the handler
    let mut p = Json::obj(vec![("src", Json::Int(0))]);
    if rng.below(3) == 0 {
      p = Json::obj(vec![("op", Json::str(*rng.pick(&["map_id", "tap", "filter"]))), ("a", Json::Int(1)), ("in", p)]);
    }
    p = Json::obj(vec![("op", Json::str(op)), ("a", Json::Int(a)), ("in", p)]);
    // the same retry(n) observable value resubscribed by an outer retry: every outer attempt
    // gets the inner one's full budget again
    let nested_retry = op == "retry" && a >= 1 && rng.below(3) == 0;
    if nested_retry {
      p = Json::obj(vec![("op", Json::str("retry")), ("a", Json::Int(rng.range(1, 3) as i64)), ("in", p)]);
    }
    if rng.below(4) == 0 {
      p = Json::obj(vec![("op", Json::str("map_id")), ("a", Json::Int(0)), ("in", p)]);
    }
    // the k-th subscription of the source behaves differently from the first
    let nattempts = rng.range(1, 5) as usize;
    let mut scripts = Vec::new();
    for k in 0..nattempts {
      let n = rng.below(3);
      let mut s: Vec<Step> = (0..n).map(|i| Step::N(100 + 10 * k as i64 + i as i64)).collect();
      let last = k + 1 == nattempts;
      match rng.below(if last { 3 } else { 6 }) {
        0 => s.push(Step::C),
        1 => {}
        _ => s.push(Step::E(rng.range(1, 8) as i64)),
      }
      scripts.push(s);
    }
    // a real Subject as the hot source: one script that goes on after an error (a Subject has no
    // terminal memory), so a handler that resubscribes inside the error notification must see the rest
    let replaying = rng.below(5) == 0 && !(op == "retry" && a == 0) && !(op == "retry_when" && a.rem_euclid(4) == 0);
    let sources = if replaying {
      // a real ReplaySubject: every resubscription is handed the whole history and the stored
      // terminal again, also when it happens inside the error notification itself
      let mut s: Vec<Step> = scripts[0].clone();
      if !s.iter().any(|x| !matches!(x, Step::N(_))) {
        s.push(Step::E(rng.range(1, 8) as i64));
      }
      if op == "retry_when" {
        // an error the predicate rejects (an accepted one would be replayed for ever)
        for st in s.iter_mut() {
          if let Step::E(id) = st {
            *id = *[5i64, 7].iter().find(|x| !pred_allows(a, **x)).unwrap_or(&5);
          }
        }
      }
      vec![SrcSpec { mode: Mode::ReplaySubject, scripts: vec![s] }]
    } else if rng.below(3) == 0 {
      let mut s: Vec<Step> = Vec::new();
      for (k, sc) in scripts.iter().enumerate() {
        let _ = k;
        s.extend(sc.iter().cloned());
      }
      vec![SrcSpec { mode: Mode::Subject, scripts: vec![s] }]
    } else {
      vec![SrcSpec { mode: Mode::Hot, scripts }]
    };
    let total: usize = sources[0].scripts.iter().map(|s| s.len()).sum();
    let order: Vec<i64> = (0..total + 1).map(|_| 0).collect();
    spec_to_json(p, &sources, &order, vec![])
  }
  fn exec(&self, w: &Json, cfg: RunCfg) -> RunOut {
    let spec = match spec_from_json(w) {
      Some(s) => s,
      None => return RunOut::invalid(),
    };
    let is_replay = spec.sources.len() == 1 && spec.sources[0].mode == Mode::ReplaySubject;
    let is_subject = spec.sources.len() == 1 && (spec.sources[0].mode == Mode::Subject || is_replay);
    if is_replay {
      // exactly one terminal, at the end of the only script
      let sc = match spec.sources[0].scripts.first() {
        Some(s) => s,
        None => return RunOut::invalid(),
      };
      let nterm = sc.iter().filter(|x| !matches!(x, Step::N(_))).count();
      if nterm != 1 || matches!(sc.last(), Some(Step::N(_))) {
        return RunOut::invalid();
      }
    }
    if spec.sources.len() != 1 || !(spec.sources[0].mode == Mode::Hot || is_subject) || !spec.order.iter().all(|o| *o == 0) {
      return RunOut::invalid();
    }
    if is_subject && spec.sources[0].scripts.len() != 1 {
      return RunOut::invalid();
    }
    for sc in &spec.sources[0].scripts {
      let nterm = sc.iter().filter(|x| !matches!(x, Step::N(_))).count();
      if !is_subject && (nterm > 1 || (nterm == 1 && matches!(sc.last(), Some(Step::N(_))))) {
        return RunOut::invalid();
      }
    }
    // find the handler and check the context is value-preserving
    fn handler(n: &Json) -> Option<(&Json, bool)> {
      let op = n.get("op")?.as_str()?;
      if HANDLERS.contains(&op) {
        // below: only map_id / tap / filter(always true for a=1: even?) over src 0
        let mut b = n.get("in")?;
        // an outer retry directly over an inner retry: the inner one is returned, the outer
        // budget is read separately
        if op == "retry" && b.get("op").and_then(|x| x.as_str()) == Some("retry") && b.i("a") >= 1 && n.i("a") >= 1 {
          return handler(b);
        }
        let mut filtered = false;
        loop {
          if b.get("src").and_then(|x| x.as_i64()) == Some(0) {
            return Some((n, filtered));
          }
          match b.get("op").and_then(|x| x.as_str()) {
            Some("map_id") | Some("tap") => {}
            Some("filter") => filtered = true,
            _ => return None,
          }
          b = b.get("in")?;
        }
      }
      if op == "map_id" {
        return handler(n.get("in")?);
      }
      None
    }
    let (h, filtered) = match handler(&spec.pipeline) {
      Some(x) => x,
      None => return RunOut::invalid(),
    };
    let op = h.s("op");
    let a = h.i("a");
    // budget of an outer retry directly above the handler (0 = there is none)
    let outer_budget: i64 = {
      fn find_outer(n: &Json) -> i64 {
        match n.get("op").and_then(|x| x.as_str()) {
          Some("retry") => {
            let inner = n.get("in");
            if inner.and_then(|i| i.get("op")).and_then(|x| x.as_str()) == Some("retry") {
              n.i("a")
            } else {
              0
            }
          }
          Some("map_id") => n.get("in").map_or(0, find_outer),
          _ => 0,
        }
      }
      find_outer(&spec.pipeline)
    };
    if is_replay {
      let stored = spec.sources[0].scripts[0].iter().find_map(|s| if let Step::E(id) = s { Some(*id) } else { None });
      if let Some(id) = stored {
        // a stored error is replayed to every new attempt: an unbounded budget never ends
        if (op == "retry" && a == 0) || (op == "retry_when" && pred_allows(a, id)) {
          return RunOut::invalid();
        }
      }
    }
    let mut outer_attempt = 1i64;
    let mut cfg = cfg;
    cfg.step_budget = 40_000;
    let r = run_seq(&spec, cfg);
    if !r.built {
      return RunOut::invalid();
    }
    let history = history(&r);
    let mut v = Vec::new();
    let pshow = pipe::show(&spec.pipeline);
    if let Some(o) = outcome_violation(&r.res, &op) {
      v.push(o);
    } else {
      // ---- model: replay the driver's steps
      let scripts = &spec.sources[0].scripts;
      let keep = |x: i64| !filtered || x % 2 == 0; // pred(1) = even
      let mut exp: Vec<Ev> = Vec::new();
      let mut subs = 1usize; // subscriptions of the source so far
      let mut attempt = 1usize;
      let mut pos = 0usize;
      let mut live = true; // the handler still listens to the source
      let mut done = false; // downstream terminated
      let mut resumed_never = false;
      for _ in &spec.order {
        if !live {
          continue;
        }
        let sc = if is_subject { &scripts[0] } else { &scripts[(subs - 1).min(scripts.len() - 1)] };
        if pos >= sc.len() {
          continue;
        }
        let st = sc[pos].clone();
        pos += 1;
        match (&st, op.as_str()) {
          (Step::N(x), "materialize") => {
            if keep(*x) {
              exp.push(Ev::Next(Val::Mat(0, Box::new(Val::Int(*x)))));
            }
          }
          (Step::N(x), _) => {
            if keep(*x) {
              exp.push(Ev::Next(Val::Int(*x)));
            }
          }
          (Step::C, "materialize") => {
            exp.push(Ev::Next(Val::Mat(2, Box::new(Val::Unit))));
            exp.push(Ev::Complete);
            live = false;
            done = true;
          }
          (Step::C, _) => {
            exp.push(Ev::Complete);
            live = false;
            done = true;
          }
          (Step::E(id), "materialize") => {
            exp.push(Ev::Next(Val::Mat(1, Box::new(Val::Int(*id)))));
            exp.push(Ev::Complete);
            live = false;
            done = true;
          }
          (Step::E(id), "mat_demat") => {
            exp.push(Ev::Error(*id));
            live = false;
            done = true;
          }
          (Step::E(id), "retry") | (Step::E(id), "retry_when") if is_replay => {
            // every further attempt is handed the history and the stored error at once
            let total = if op == "retry" { a * outer_budget.max(1) } else { 1 };
            let items: Vec<Ev> = sc[..pos - 1].iter().filter_map(|s| if let Step::N(x) = s { if keep(*x) { Some(Ev::Next(Val::Int(*x))) } else { None } } else { None }).collect();
            for _ in 1..total {
              exp.extend(items.iter().cloned());
            }
            exp.push(Ev::Error(*id));
            live = false;
            done = true;
          }
          (Step::E(id), "retry") | (Step::E(id), "retry_when") => {
            let again = if op == "retry" { a == 0 || (attempt as i64) < a } else { pred_allows(a, *id) };
            if again {
              attempt += 1;
              subs += 1;
              if !is_subject {
                pos = 0;
              }
            } else if outer_budget >= 1 && outer_attempt < outer_budget {
              // the outer retry resubscribes the inner retry observable: a fresh inner budget
              outer_attempt += 1;
              attempt = 1;
              subs += 1;
              if !is_subject {
                pos = 0;
              }
            } else {
              exp.push(Ev::Error(*id));
              live = false;
              done = true;
            }
          }
          (Step::E(id), _) => {
            // on_error_resume_next: continue with f(error)
            live = false;
            match a.rem_euclid(7) {
              0 => {
                exp.push(Ev::Next(Val::Int(id * 10)));
                exp.push(Ev::Complete);
                done = true;
              }
              1 => {
                exp.push(Ev::Next(Val::Int(id * 10)));
                exp.push(Ev::Next(Val::Int(id * 10 + 1)));
                exp.push(Ev::Complete);
                done = true;
              }
              2 => {
                exp.push(Ev::Complete);
                done = true;
              }
              3 => {
                exp.push(Ev::Error(900 + id.rem_euclid(10)));
                done = true;
              }
              _ => resumed_never = true,
            }
          }
        }
      }
      let _ = (done, resumed_never);
      let got: Vec<Ev> = r.rec.events().into_iter().map(|e| e.ev).collect();
      let show = |x: &[Ev]| x.iter().map(|e| e.show()).collect::<Vec<_>>().join(" ");
      if got != exp {
        let class = if got.iter().any(|e| matches!(e, Ev::Error(_))) != exp.iter().any(|e| matches!(e, Ev::Error(_))) || got.iter().zip(exp.iter()).any(|(g, e)| matches!((g, e), (Ev::Error(x), Ev::Error(y)) if x != y)) {
          "error-handling-differs"
        } else {
          "items-differ"
        };
        v.push(Violation::new(class, &op, format!("pipeline {} over subscriptions {:?}: the definition gives [{}], the subscriber received [{}]", pshow, scripts.iter().map(|s| s.iter().map(|x| x.show()).collect::<Vec<_>>().join(",")).collect::<Vec<_>>(), show(&exp), show(&got))));
      }
      let got_subs = r.src_logs[0].lock().unwrap().subscriptions.len();
      if !is_subject && got_subs != subs {
        v.push(Violation::new("resubscription-count", &op, format!("pipeline {} over subscriptions {:?}: the source was subscribed {} time(s), the definition gives {}", pshow, scripts.iter().map(|s| s.iter().map(|x| x.show()).collect::<Vec<_>>().join(",")).collect::<Vec<_>>(), got_subs, subs)));
      }
      // a failed attempt's observer is unsubscribed before the next attempt is subscribed
      {
        let l = r.src_logs[0].lock().unwrap();
        for (k, (sub_seq, _)) in l.subscriptions.iter().enumerate().skip(1) {
          if let Some(e) = l.emits.iter().find(|e| e.sub + 1 == k && e.seq_start > *sub_seq && e.sub_before) {
            v.push(Violation::new("failed-attempt-still-subscribed", &op, format!("pipeline {}: attempt {} was subscribed at {}, yet the observer of attempt {} still saw is_subscribed()==true at {}", pshow, k + 1, sub_seq, k, e.seq_start)));
            break;
          }
        }
      }
    }
    let reach = vec![("c04-resubscribed", (r.src_logs[0].lock().unwrap().subscriptions.len() > 1) as u64)];
    RunOut { fingerprint: fp(&history), res: r.res, violations: v, invalid: false, reach, history }
  }
}

// ================================================================================================
// the subscribers of the inner observables of window_with_count / group_by are subscribers too:
// a source error reaches every inner observable that is still open, once, with the same payload

pub struct C04Inner {
  /// false: C04's verdicts (terminals of the inner observables); true: C17's verdict only (after
  /// the end and with every handle dropped nothing owns the inner subscribers' callbacks)
  pub release: bool,
}

impl Family for C04Inner {
  fn name(&self) -> &'static str {
    if self.release {
      "c17-inner-observables-release"
    } else {
      "c04-error-reaches-inner-observables"
    }
  }
  fn threaded(&self) -> bool {
    false
  }
  fn gen(&self, rng: &mut Rng, _tier: Tier) -> Json {
    let n = rng.below(8) as i64;
    Json::obj(vec![
      ("op", Json::str(*rng.pick(&["window_with_count", "group_by"]))),
      ("a", Json::Int(rng.range(1, 3) as i64)),
      ("items", Json::Arr((0..n).map(|i| Json::Int(10 + i + rng.below(2) as i64 * 100)).collect())),
      ("ending", Json::str(*rng.pick(&["error", "error", "error", "complete"]))),
      ("err", Json::Int(rng.below(40) as i64)),
      // the inner subscriber that receives the k-th item (counted over all inner observables) ends
      // the source from inside that delivery; -1 = nobody does
      ("reenter_at", Json::Int(if rng.below(3) == 0 { rng.below(6) as i64 } else { -1 })),
    ])
  }
  fn exec(&self, w: &Json, cfg: RunCfg) -> RunOut {
    use another_rxrust::prelude::*;
    use std::sync::{Arc, Mutex};
    let op = w.s("op");
    let a = w.i("a");
    let items: Vec<i64> = w.a("items").iter().filter_map(|x| x.as_i64()).collect();
    let ending = w.s("ending");
    let err = w.i("err");
    if !["window_with_count", "group_by"].contains(&op.as_str()) || a < 1 || a > 4 || items.len() > 10 || !["error", "complete"].contains(&ending.as_str()) || err < 0 || err > 1000 {
      return RunOut::invalid();
    }
    let reenter_at = if w.get("reenter_at").is_some() { w.i("reenter_at").clamp(-1, 20) } else { -1 };
    let master = Token(Arc::new(()));
    let tok = master.clone();
    let outer = Recorder::new();
    let inners: Arc<Mutex<Vec<Recorder>>> = Arc::new(Mutex::new(Vec::new()));
    let (outer2, inners2, op2, items2, ending2) = (outer.clone(), inners.clone(), op.clone(), items.clone(), ending.clone());
    let res = rxsim_rt::run(cfg, move || {
      let sbj = subjects::Subject::<Val>::new();
      let seen = Arc::new(Mutex::new(0i64));
      let (sbj_r, ending_r) = (sbj.clone(), ending2.clone());
      // every inner recorder gets this hook (and a clone of the counting token)
      let hook: Arc<dyn Fn(&Ev) + Send + Sync> = Arc::new(move |ev: &Ev| {
        if let Ev::Next(_) = ev {
          let k = {
            let mut n = seen.lock().unwrap();
            *n += 1;
            *n - 1
          };
          if k == reenter_at {
            if ending_r == "error" {
              sbj_r.error(mk_err(err));
            } else {
              sbj_r.complete();
            }
          }
        }
      });
      let o: Observable<'static, Observable<'static, Val>> = if op2 == "window_with_count" { sbj.observable().window_with_count(a as usize) } else { sbj.observable().group_by(move |x: Val| x.int().rem_euclid(a)) };
      let (l1, l2, l3) = (outer2.log.clone(), outer2.log.clone(), outer2.log.clone());
      let inn = inners2.clone();
      let keep: Arc<Mutex<Vec<Subscription<'static>>>> = Arc::new(Mutex::new(Vec::new()));
      let keep2 = keep.clone();
      let stamp = |ev: Ev| Rec { seq_in: rxsim_rt::seq(), seq_out: rxsim_rt::seq(), task: 0, t: 0, ev };
      let _sub = o.subscribe(
        move |g: Observable<'static, Val>| {
          let mut r = Recorder::new();
          r.token = Some(tok.clone());
          r.hook = Some(hook.clone());
          inn.lock().unwrap().push(r.clone());
          let k = inn.lock().unwrap().len() as i64 - 1;
          let s = r.subscribe(&g);
          keep.lock().unwrap().push(s);
          l1.lock().unwrap().push(stamp(Ev::Next(Val::Int(k))));
        },
        move |e| l2.lock().unwrap().push(stamp(Ev::Error(err_id(&e)))),
        move || l3.lock().unwrap().push(stamp(Ev::Complete)),
      );
      for i in &items2 {
        sbj.next(Val::Int(*i));
      }
      if ending2 == "error" {
        sbj.error(mk_err(err));
      } else {
        sbj.complete();
      }
      // the caller drops its handles (no unsubscribe: the subscriptions have ended by a terminal)
      keep2.lock().unwrap().clear();
    });
    let mut v = Vec::new();
    let mut history = vec![format!("{}({}) over items {:?}, then {}{}", op, a, items, ending, if reenter_at >= 0 { format!(" (signalled from inside the delivery of item #{} if there is one)", reenter_at) } else { String::new() })];
    let want_term = if ending == "error" { Ev::Error(err_id(&mk_err(err))) } else { Ev::Complete };
    let inners: Vec<Recorder> = std::mem::take(&mut *inners.lock().unwrap());
    history.push(format!("outer: {}", outer.shown()));
    for (k, r) in inners.iter().enumerate() {
      history.push(format!("inner {}: {}", k, r.shown()));
    }
    // C17: the run is over, the subject, the observables and the subscriptions are gone; what the
    // harness still holds are the recorders (their logs are kept, their token clones dropped here)
    let logs: Vec<Recorder> = inners.iter().map(|r| { let mut c = Recorder::new(); c.log = r.log.clone(); c }).collect();
    drop(inners);
    let inners = logs;
    let live = Arc::strong_count(&master.0) - 1;
    if self.release {
      if res.outcome.is_ok() && live > 0 {
        v.push(Violation::new("tokens-leaked", &op, format!("{}({}) over {:?} ended by {}{}: with every handle dropped, {} owner(s) of the inner subscribers' callbacks are still alive", op, a, items, ending, if reenter_at >= 0 { format!(" from inside the delivery of item #{}", reenter_at) } else { String::new() }, live)));
      }
    } else if let Some(o) = outcome_violation(&res, &op) {
      v.push(o);
    } else {
      // (which item goes to which inner observable is C02's business; judged here: every inner
      // observable that the operator had not closed itself ends with the source's terminal - the
      // same payload, once - and nothing follows a terminal)
      let show = |x: &[Ev]| x.iter().map(|e| e.show()).collect::<Vec<_>>().join(" ");
      let n_inner_items: usize = inners.iter().map(|r| r.events().iter().filter(|e| matches!(e.ev, Ev::Next(_))).count()).sum();
      // (a terminal signalled from inside a delivery cuts the rest of the items off)
      if n_inner_items != items.len() && (reenter_at < 0 || reenter_at as usize >= items.len()) {
        v.push(Violation::new("inner-differs", &op, format!("{}({}) over {:?}: the inner observables delivered {} items in all", op, a, items, n_inner_items)));
      }
      for (k, r) in inners.iter().enumerate() {
        let got: Vec<Ev> = r.events().into_iter().map(|e| e.ev).collect();
        let terms: Vec<&Ev> = got.iter().filter(|e| e.is_terminal()).collect();
        if let Some(b) = contract_breach(&r.events()) {
          v.push(Violation::new("event-after-terminal", &op, format!("inner observable {}: {}", k, b)));
        } else if terms.is_empty() {
          let class = if ending == "error" { "error-lost" } else { "complete-lost" };
          v.push(Violation::new(class, &op, format!("{}({}) over {:?} ending with {}: the subscriber of inner observable {} was still open and never got that terminal: [{}]", op, a, items, want_term.show(), k, show(&got))));
        } else if *terms[0] != want_term && (op == "group_by" || (op == "window_with_count" && a >= 2 && (got.iter().filter(|e| matches!(e, Ev::Next(_))).count() as i64) < a)) {
          // group_by never closes a group itself, and a window that has not received its `count`
          // items is still open: they are owed the source's terminal, nothing else
          v.push(Violation::new("error-differs", &op, format!("{}({}): inner observable {} was still open and ended with {}, the source signalled {}", op, a, k, terms[0].show(), want_term.show())));
        } else if *terms[0] != want_term && *terms[0] != Ev::Complete {
          v.push(Violation::new("error-differs", &op, format!("{}({}): inner observable {} ended with {}, the source signalled {}", op, a, k, terms[0].show(), want_term.show())));
        }
      }
      let out_term: Vec<Ev> = outer.events().into_iter().map(|e| e.ev).filter(|e| e.is_terminal()).collect();
      if out_term != vec![want_term.clone()] {
        v.push(Violation::new("outer-terminal-differs", &op, format!("{}({}): the outer subscriber must get {} once, got [{}]", op, a, want_term.show(), show(&out_term))));
      }
    }
    let mut fpv = 0u64;
    for h in &history {
      fpv = fpv.wrapping_mul(0x100000001B3) ^ fnv(h);
    }
    RunOut { res, violations: v, fingerprint: fpv, invalid: false, reach: vec![], history }
  }
}

//! C05 - unsubscribe stops delivery, is idempotent, and is reflected by is_subscribed
//! (DESIGN.md 5.5): a sequential family (every cancel position) and a threaded family.

use crate::c01::{all_unary, blame_of, gen_sources, shrink_pipeline_field, spec_to_json};
use crate::common::*;
use crate::json::Json;
use crate::pipe;
use crate::rec::*;
use crate::seq::*;
use crate::val::*;
use another_rxrust::prelude::*;
use rxsim_rt as rt;
use rxsim_rt::prng::Rng;
use rxsim_rt::RunCfg;
use std::sync::{Arc, Mutex};

pub struct C05Seq;

impl Family for C05Seq {
  fn name(&self) -> &'static str {
    "c05-unsubscribe-sequential"
  }
  fn threaded(&self) -> bool {
    false
  }
  fn gen(&self, rng: &mut Rng, tier: Tier) -> Json {
    let nsrc = rng.range(1, 3) as usize;
    let depth = if tier == Tier::Quick { rng.below(4) } else { rng.below(6) } as u32;
    let unary = all_unary();
    let g = pipe::GenCfg { nsrc, unary: &unary, multi: pipe::MULTI, trig: pipe::TRIG, news: &["just", "from_iter", "empty", "never", "range"], max_depth: depth };
    let mut next_src = 0;
    let pipeline = if rng.below(8) == 0 { Json::obj(vec![("src", Json::Int(0))]) } else { pipe::gen_node(rng, &g, depth, &mut next_src) };
    let sources = gen_sources(rng, nsrc, 4, false, &[Mode::Hot, Mode::Hot, Mode::Subject, Mode::ColdPolite]);
    let mut order = gen_order(rng, &sources, 1);
    let use_using = rng.below(5) == 0;
    // cancel@k: before the first item, between any two events, after the terminal, repeatedly
    let n_unsub = *rng.pick(&[1usize, 1, 1, 2, 3]);
    for _ in 0..n_unsub {
      let p = rng.below(order.len() as u64 + 1) as usize;
      order.insert(p, if use_using && rng.below(2) == 0 { if rng.below(3) == 0 { ACT_DROP_USING_UNWINDING } else { ACT_DROP_USING } } else { ACT_UNSUB });
    }
    let mut re = Vec::new();
    if rng.below(6) == 0 {
      // the subscriber unsubscribes itself from inside a callback
      re.push(Json::obj(vec![("on", Json::str(if rng.below(3) == 0 { "terminal" } else { "next" })), ("do", Json::Int(-1))]));
    }
    spec_to_json(pipeline, &sources, &order, vec![("use_using", Json::Bool(use_using)), ("reenter", Json::Arr(re))])
  }
  fn exec(&self, w: &Json, cfg: RunCfg) -> RunOut {
    let spec = match spec_from_json(w) {
      Some(s) => s,
      None => return RunOut::invalid(),
    };
    // premise: well-formed sources
    for s in &spec.sources {
      for sc in &s.scripts {
        let nterm = sc.iter().filter(|x| !matches!(x, Step::N(_))).count();
        if nterm > 1 || (nterm == 1 && matches!(sc.last(), Some(Step::N(_)))) {
          return RunOut::invalid();
        }
      }
    }
    let mut cfg = cfg;
    cfg.step_budget = 60_000;
    let r = run_seq(&spec, cfg);
    if !r.built {
      return RunOut::invalid();
    }
    let history = history(&r);
    let mut v = Vec::new();
    let blame = blame_of(&spec.pipeline);
    let pshow = pipe::show(&spec.pipeline);
    if r.res.outcome.is_ok() {
      let evs = r.rec.events();
      // all source emissions (driver steps), to attribute deliveries
      let mut emits: Vec<(u64, u64)> = Vec::new();
      for l in &r.src_logs {
        for e in &l.lock().unwrap().emits {
          emits.push((e.seq_start, e.seq_end));
        }
      }
      for e in &r.subject_emits {
        emits.push((e.seq_start, e.seq_end));
      }
      let first_term = evs.iter().find(|e| e.ev.is_terminal());
      if let Some((u_call, u_ret)) = r.unsubs.first().copied() {
        for e in &evs {
          if e.seq_in > u_ret {
            // the outermost driver step this delivery happened in
            let origin = emits.iter().filter(|(s, en)| *s < e.seq_in && *en > e.seq_in).map(|x| x.0).min();
            if origin.map_or(true, |o| o > u_ret) {
              v.push(Violation::new(
                "delivered-after-unsubscribe",
                &blame,
                format!("pipeline {}: {} delivered at {} although unsubscribe had returned at {} (emission started at {:?})", pshow, e.ev.show(), e.seq_in, u_ret, origin),
              ));
            }
          }
        }
        let _ = u_call;
      }
      // is_subscribed: true from subscribe until the first terminal or unsubscribe, false ever after
      let end_start = [first_term.map(|t| t.seq_in), r.unsubs.first().map(|u| u.0)].into_iter().flatten().min();
      let end_done = [first_term.map(|t| t.seq_out), r.unsubs.first().map(|u| u.1)].into_iter().flatten().min();
      for (s, b) in &r.samples {
        match (end_start, end_done) {
          (Some(es), _) if *s < es && !*b => {
            v.push(Violation::new("not-subscribed-while-live", &blame, format!("pipeline {}: Subscription::is_subscribed() is false at {} before any terminal/unsubscribe (first at {})", pshow, s, es)));
          }
          (None, _) if !*b => {
            v.push(Violation::new("not-subscribed-while-live", &blame, format!("pipeline {}: Subscription::is_subscribed() is false at {} although there was neither a terminal nor an unsubscribe", pshow, s)));
          }
          (_, Some(ed)) if *s > ed && *b => {
            v.push(Violation::new("subscribed-after-end", &blame, format!("pipeline {}: Subscription::is_subscribed() is true at {} after the subscription ended at {}", pshow, s, ed)));
          }
          _ => {}
        }
      }
    }
    let reach = vec![
      ("c05-unsubscribe-before-first-event", r.unsubs.first().map_or(false, |u| r.rec.events().first().map_or(true, |e| e.seq_in > u.1)) as u64),
      ("c05-unsubscribe-after-terminal", r.unsubs.first().map_or(false, |u| r.rec.events().iter().any(|e| e.ev.is_terminal() && e.seq_out < u.0)) as u64),
      ("c05-unsubscribe-repeated", (r.unsubs.len() > 1) as u64),
      ("c05-steps-after-unsubscribe", r.unsubs.first().map_or(false, |u| r.src_logs.iter().any(|l| l.lock().unwrap().emits.iter().any(|e| e.seq_start > u.1)) || r.subject_emits.iter().any(|e| e.seq_start > u.1)) as u64),
      ("c05-using-guard-dropped", spec.use_using as u64),
    ];
    RunOut { fingerprint: fp(&history), res: r.res, violations: v, invalid: false, reach, history }
  }
  fn shrink(&self, w: &Json) -> Vec<Json> {
    shrink_pipeline_field(w)
  }
}

// ================================================================================================

pub struct C05Thr;

const THR_OPS: &[&str] = &["map_id", "filter", "take", "skip", "distinct_until_changed", "tap", "observe_on", "take_while", "default_if_empty", "mat_demat", "retry", "on_error_resume_next_never"];

impl Family for C05Thr {
  fn name(&self) -> &'static str {
    "c05-unsubscribe-threaded"
  }
  fn threaded(&self) -> bool {
    true
  }
  fn gen(&self, rng: &mut Rng, tier: Tier) -> Json {
    let nsrc = rng.range(1, 2) as usize;
    let maxlen = if tier == Tier::Quick { 4 } else { 5 };
    let scripts: Vec<Json> = (0..nsrc)
      .map(|p| {
        let n = rng.range(1, maxlen);
        let mut s: Vec<Step> = (0..n).map(|i| Step::N((p as i64 + 1) * 100 + i as i64)).collect();
        match rng.below(4) {
          0 => {}
          1 => s.push(Step::E(p as i64 + 1)),
          _ => s.push(Step::C),
        }
        script_to_json(&s)
      })
      .collect();
    let nops = rng.below(3);
    let ops: Vec<Json> = (0..nops).map(|_| Json::str(*rng.pick(THR_OPS))).collect();
    Json::obj(vec![
      ("inputs", Json::Arr(scripts)),
      ("ops", Json::Arr(ops)),
      ("check_subscribed", Json::Bool(rng.below(2) == 0)),
      ("unsub_by", Json::str(*rng.pick(&["main", "third", "third"]))),
      ("unsub_after_probes", Json::Int(rng.below(14) as i64)),
      ("unsub_twice", Json::Bool(rng.below(4) == 0)),
      ("cb_probes", Json::Int(rng.below(3) as i64)),
      ("use_using", Json::Bool(rng.below(6) == 0)),
      // sources: Observable::create on its own thread, or a Subject pushed from a producer thread
      ("subject_sources", Json::Bool(rng.below(3) == 0)),
    ])
  }
  fn exec(&self, w: &Json, cfg: RunCfg) -> RunOut {
    let subject_sources = w.b("subject_sources");
    let mut scripts = Vec::new();
    for s in w.a("inputs") {
      match script_from_json(&s) {
        Some(x) if x.len() <= 8 => scripts.push(x),
        _ => return RunOut::invalid(),
      }
    }
    if scripts.is_empty() || scripts.len() > 3 {
      return RunOut::invalid();
    }
    let mut seen = std::collections::BTreeSet::new();
    for sc in &scripts {
      let nterm = sc.iter().filter(|s| !matches!(s, Step::N(_))).count();
      if nterm > 1 || (nterm == 1 && matches!(sc.last(), Some(Step::N(_)))) {
        return RunOut::invalid();
      }
      for s in sc {
        if let Step::N(i) = s {
          if !seen.insert(*i) {
            return RunOut::invalid();
          }
        }
      }
    }
    let ops: Vec<String> = w.a("ops").iter().filter_map(|x| x.as_str().map(|s| s.to_string())).collect();
    if ops.len() > 4 || ops.iter().any(|o| !THR_OPS.contains(&o.as_str())) {
      return RunOut::invalid();
    }
    let check = w.b("check_subscribed");
    let by_third = match w.s("unsub_by").as_str() {
      "main" => false,
      "third" => true,
      _ => return RunOut::invalid(),
    };
    let wait = w.i("unsub_after_probes").clamp(0, 40);
    let twice = w.b("unsub_twice");
    let use_using = w.b("use_using");
    let rec = Recorder::with_probes(w.i("cb_probes").clamp(0, 3) as u32);
    let logs: Vec<Arc<Mutex<SrcLog>>> = scripts.iter().map(|_| Arc::new(Mutex::new(SrcLog::default()))).collect();
    let u_stamp: Arc<Mutex<Vec<(u64, u64)>>> = Arc::new(Mutex::new(Vec::new()));
    let samples: Arc<Mutex<Vec<(u64, bool)>>> = Arc::new(Mutex::new(Vec::new()));
    let (rec2, logs2, us, sm, sc2, ops2) = (rec.clone(), logs.clone(), u_stamp.clone(), samples.clone(), scripts.clone(), ops.clone());
    let res = rt::run(cfg, move || {
      let handles = Arc::new(Mutex::new(Vec::new()));
      let names: [&'static str; 3] = ["source0", "source1", "source2"];
      let mut subjects_: Vec<subjects::Subject<'static, Val>> = Vec::new();
      let inputs: Vec<Observable<'static, Val>> = if subject_sources {
        sc2.iter().map(|_| {
          let sb = subjects::Subject::<Val>::new();
          subjects_.push(sb.clone());
          sb.observable()
        }).collect()
      } else {
        sc2.iter().enumerate().map(|(i, s)| threaded_source(names[i], s.clone(), logs2[i].clone(), check, vec![], handles.clone())).collect()
      };
      let mut o = if inputs.len() == 1 { inputs[0].clone() } else { inputs[0].merge(&inputs[1..]) };
      for op in &ops2 {
        o = match op.as_str() {
          "map_id" => o.map(|x: Val| x),
          "filter" => o.filter(|x: Val| x.int() % 7 != 3),
          "take" => o.take(3),
          "skip" => o.skip(1),
          "distinct_until_changed" => o.distinct_until_changed(),
          "tap" => o.tap(|_| {}, |_| {}, || {}),
          "observe_on" => o.observe_on(schedulers::new_thread_scheduler()),
          "take_while" => o.take_while(|x: Val| x.int() % 100 < 3),
          "default_if_empty" => o.default_if_empty(Val::Int(-5)),
          "mat_demat" => o.materialize().dematerialize(),
          "retry" => o.retry(1),
          _ => o.on_error_resume_next(|_| observables::never()),
        };
      }
      let sub = rec2.subscribe(&o);
      // producer threads of subject sources start once the subscriber is attached
      for (i, sb) in subjects_.iter().enumerate() {
        let (sb, script, log) = (sb.clone(), sc2[i].clone(), logs2[i].clone());
        handles.lock().unwrap().push(rt::spawn_harness(names[i], move || {
          for st in &script {
            let seq_start = rt::seq();
            let t_start = rt::now_ns();
            match st {
              Step::N(x) => sb.next(Val::Int(*x)),
              Step::E(e) => sb.error(mk_err(*e)),
              Step::C => sb.complete(),
            }
            let seq_end = rt::seq();
            log.lock().unwrap().emits.push(Emit { sub: 0, step: st.clone(), seq_start, seq_end, sub_before: true, sub_after: true, task: rt::task_id().unwrap_or(0), t: rt::now_ns(), t_start });
          }
        }));
      }
      let do_unsub = {
        let (us, sm) = (us.clone(), sm.clone());
        move |sub: Subscription<'static>| {
          for _ in 0..wait {
            rt::probe("c05-unsubscriber-wait");
          }
          let n = if twice { 2 } else { 1 };
          let using = if use_using { Some(utils::Using::new(sub.clone())) } else { None };
          let mut using = using;
          for _ in 0..n {
            let a = rt::seq();
            match using.take() {
              Some(u) => drop(u),
              None => sub.unsubscribe(),
            }
            let b = rt::seq();
            us.lock().unwrap().push((a, b));
            let s = sub.is_subscribed();
            sm.lock().unwrap().push((rt::seq(), s));
          }
        }
      };
      if by_third {
        let s2 = sub.clone();
        let h = rt::spawn_harness("unsubscriber", move || do_unsub(s2));
        let _ = h.join();
      } else {
        do_unsub(sub.clone());
      }
      loop {
        let hs: Vec<_> = std::mem::take(&mut *handles.lock().unwrap());
        if hs.is_empty() {
          break;
        }
        for h in hs {
          let _ = h.join();
        }
      }
      rt::quiesce();
      let s = sub.is_subscribed();
      sm.lock().unwrap().push((rt::seq(), s));
    });
    // ---- oracle
    let blame = if ops.is_empty() { if scripts.len() > 1 { "merge".to_string() } else { "direct".to_string() } } else { ops.join("+") };
    let mut v = Vec::new();
    let evs = rec.events();
    let us = u_stamp.lock().unwrap().clone();
    let mut history = Vec::new();
    for (i, l) in logs.iter().enumerate() {
      for e in &l.lock().unwrap().emits {
        history.push(format!("{:>4}..{:<4} t{} source{} emits {} (is_subscribed before/after: {}/{})", e.seq_start, e.seq_end, e.task, i, e.step.show(), e.sub_before, e.sub_after));
      }
    }
    for r in &evs {
      history.push(format!("{:>4}..{:<4} t{} subscriber gets {}", r.seq_in, r.seq_out, r.task, r.ev.show()));
    }
    for (a, b) in &us {
      history.push(format!("{:>4}..{:<4} unsubscribe", a, b));
    }
    history.sort();
    match &res.outcome {
      rt::Outcome::Ok | rt::Outcome::Leak { .. } => {
        if let Some((_, u)) = us.first() {
          for r in &evs {
            if r.seq_in <= *u {
              continue;
            }
            // attribute the delivery to the source emission that caused it (value-preserving ops)
            let origin: Option<u64> = match &r.ev {
              Ev::Next(x) if x.int() == -5 => None, // default_if_empty's own item: caused by a completion
              Ev::Next(x) => logs.iter().find_map(|l| l.lock().unwrap().emits.iter().find(|e| e.step == Step::N(x.int())).map(|e| e.seq_start)),
              _ => None,
            };
            let origin = match origin {
              Some(o) => Some(o),
              // terminals / derived items: the emission in progress on the delivering task; with
              // none (delivery on a scheduler thread) the cause cannot be attributed -> not judged
              None => logs.iter().find_map(|l| l.lock().unwrap().emits.iter().find(|e| e.task == r.task && e.seq_start < r.seq_in && e.seq_end > r.seq_in).map(|e| e.seq_start)),
            };
            if origin.is_none() {
              continue;
            }
            if origin.map_or(true, |o| o > *u) {
              v.push(Violation::new(
                "delivered-after-unsubscribe",
                &blame,
                format!("{} delivered at {} although its emission started at {:?}, after unsubscribe had returned at {}", r.ev.show(), r.seq_in, origin, u),
              ));
            }
          }
          for (s, b) in samples.lock().unwrap().iter() {
            if *s > *u && *b {
              v.push(Violation::new("subscribed-after-end", &blame, format!("Subscription::is_subscribed() is true at {} after unsubscribe returned at {}", s, u)));
            }
          }
        }
      }
      // blocked runs: left to C07
      _ => {}
    }
    let mut fp = 0u64;
    for h in &history {
      fp = fp.wrapping_mul(0x100000001B3) ^ fnv(h.split_whitespace().skip(1).collect::<Vec<_>>().join(" ").as_str());
    }
    let reach = vec![
      ("c05-unsubscribe-overlaps-emission", us.first().map_or(false, |(a, b)| logs.iter().any(|l| l.lock().unwrap().emits.iter().any(|e| e.seq_start < *b && e.seq_end > *a))) as u64),
      ("c05-emission-after-unsubscribe", us.first().map_or(false, |(_, b)| logs.iter().any(|l| l.lock().unwrap().emits.iter().any(|e| e.seq_start > *b))) as u64),
    ];
    RunOut { res, violations: v, fingerprint: fp, invalid: false, reach, history }
  }
}

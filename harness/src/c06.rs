//! C06 - every way a subscription ends tears down everything upstream of it (DESIGN.md 5.6)
//!
//! pipeline = down( probe0( cause ) ): whatever makes `cause` finish (take, first, element_at,
//! take_while, take_until, contains, all, sequence_equal, dematerialize, an erroring input of
//! merge/zip/flat_map, the source's own terminal, ...) is seen by probe0; from then on every
//! source below it must see is_subscribed()==false on its next emission attempt. The same
//! for the whole subscription after a terminal / unsubscribe at the subscriber.

use crate::c01::{all_unary, gen_sources, spec_to_json};
use crate::common::*;
use crate::json::Json;
use crate::pipe;
use crate::rec::*;
use crate::seq::*;
use crate::val::Val;
use rxsim_rt::prng::Rng;
use rxsim_rt::RunCfg;

pub struct C06;

const CAUSES_UNARY: &[&str] = &["take", "first", "element_at", "take_while", "contains", "all", "dematerialize", "retry", "take_last", "last", "map", "ignore_elements", "on_error_resume_next"];
const CAUSES_MULTI: &[&str] = &["merge", "zip", "amb", "sequence_equal", "concat", "combine_latest"];

fn cause_node(p: &Json) -> Option<&Json> {
  // the node right below probe0
  if p.get("op").and_then(|x| x.as_str()) == Some("probe") && p.i("a") == 0 {
    return p.get("in");
  }
  for k in ["in", "by"] {
    if let Some(x) = p.get(k) {
      if let Some(c) = cause_node(x) {
        return Some(c);
      }
    }
  }
  None
}

impl Family for C06 {
  fn name(&self) -> &'static str {
    "c06-teardown"
  }
  fn threaded(&self) -> bool {
    false
  }
  fn gen(&self, rng: &mut Rng, tier: Tier) -> Json {
    let nsrc = rng.range(1, 3) as usize;
    let depth = if tier == Tier::Quick { rng.below(3) } else { rng.below(4) } as u32;
    let unary = all_unary();
    // endless producers only as leaves of `up`
    let news: &[&str] = if rng.below(4) == 0 { &["repeat", "endless_iter", "just", "from_iter"] } else { &["just", "from_iter", "empty", "never"] };
    let g = pipe::GenCfg { nsrc, unary: &unary, multi: pipe::MULTI, trig: pipe::TRIG, news, max_depth: depth };
    let mut next_src = 0;
    // the cause
    if rng.below(40) == 0 {
      // retry over merge: input 0 fails at once; the next attempt's cold input emits inside
      // subscribe, and from inside that delivery the subscriber makes the failed attempt's sibling
      // (src1, subscription #0) try to emit
      let ins: Vec<Json> = (0..3).map(|i| Json::obj(vec![("src", Json::Int(i))])).collect();
      let merged = Json::obj(vec![("multi", Json::str("merge")), ("ins", Json::Arr(ins))]);
      let input = Json::obj(vec![("op", Json::str("probe")), ("a", Json::Int(1)), ("in", merged)]);
      let cause = Json::obj(vec![("op", Json::str(*rng.pick(&["retry", "retry", "retry_when"]))), ("a", Json::Int(*rng.pick(&[0i64, 2, 3]))), ("in", input)]);
      let p = Json::obj(vec![("op", Json::str("probe")), ("a", Json::Int(0)), ("in", cause)]);
      let sources = vec![
        SrcSpec { mode: Mode::Hot, scripts: vec![vec![Step::E(4)], gen_script(rng, 100, 3, true)] },
        SrcSpec { mode: Mode::Hot, scripts: vec![gen_script(rng, 200, 3, true)] },
        SrcSpec { mode: Mode::Cold, scripts: vec![vec![], vec![Step::N(300), Step::N(301)]] },
      ];
      let mut order = vec![0i64];
      for _ in 0..rng.below(4) {
        order.push(rng.below(2) as i64);
      }
      let re = vec![Json::obj(vec![("on", Json::str("next")), ("do", Json::Int(1))])];
      return spec_to_json(p, &sources, &order, vec![("reenter", Json::Arr(re))]);
    }
    if rng.below(60) == 0 {
      // an endless start_with prefix under an operator that has all it needs after a few items:
      // the prefix must stop being pulled
      let inner = Json::obj(vec![("op", Json::str("start_with_endless")), ("a", Json::Int(0)), ("in", Json::obj(vec![("src", Json::Int(0))]))]);
      let input = Json::obj(vec![("op", Json::str("probe")), ("a", Json::Int(1)), ("in", inner)]);
      let (op, a) = *rng.pick(&[("take", 1i64), ("take", 3), ("first", 0), ("element_at", 2), ("take_while", 9), ("contains", 2)]);
      let cause = Json::obj(vec![("op", Json::str(op)), ("a", Json::Int(a)), ("in", input)]);
      let p = Json::obj(vec![("op", Json::str("probe")), ("a", Json::Int(0)), ("in", cause)]);
      let sources = gen_sources(rng, 1, 3, false, &[Mode::Hot]);
      let order = gen_order(rng, &sources, 1);
      return spec_to_json(p, &sources, &order, vec![("reenter", Json::Arr(vec![]))]);
    }
    if rng.below(50) == 0 {
      // contains / all directly on a hot source (or two merged ones): the verdict is caused by an
      // item, and the subscriber makes the source emit again from inside the verdict's delivery
      let mut sources = gen_sources(rng, 2, 4, false, &[Mode::Hot]);
      let items: Vec<i64> = sources[0].scripts[0].iter().filter_map(|s| if let Step::N(x) = s { Some(*x) } else { None }).collect();
      if items.is_empty() {
        sources[0].scripts[0].insert(0, Step::N(105));
      }
      let items: Vec<i64> = sources[0].scripts[0].iter().filter_map(|s| if let Step::N(x) = s { Some(*x) } else { None }).collect();
      let hit = *rng.pick(&items);
      let merged = rng.below(2) == 0;
      let inner = if merged { Json::obj(vec![("multi", Json::str("merge")), ("ins", Json::Arr(vec![Json::obj(vec![("src", Json::Int(0))]), Json::obj(vec![("src", Json::Int(1))])]))]) } else { Json::obj(vec![("src", Json::Int(0))]) };
      if !merged {
        sources.truncate(1);
      }
      let input = Json::obj(vec![("op", Json::str("probe")), ("a", Json::Int(1)), ("in", inner)]);
      // all(k): predicate family of pipe.rs - k = 1 means "even"
      // take_while(k = 1: "while even") lets its source go before it completes downstream: there the
      // subscriber makes the source emit again from inside the completion's delivery
      let which = rng.below(3);
      let cause = if which == 0 { Json::obj(vec![("op", Json::str("contains")), ("a", Json::Int(hit)), ("in", input)]) } else if which == 1 { Json::obj(vec![("op", Json::str("all")), ("a", Json::Int(1)), ("in", input)]) } else { Json::obj(vec![("op", Json::str("take_while")), ("a", Json::Int(1)), ("in", input)]) };
      let p = Json::obj(vec![("op", Json::str("probe")), ("a", Json::Int(0)), ("in", cause)]);
      let order = gen_order(rng, &sources, 1);
      let re = vec![Json::obj(vec![("on", Json::str(if which == 2 { "terminal" } else { "next" })), ("do", Json::Int(rng.below(sources.len() as u64) as i64))])];
      return spec_to_json(p, &sources, &order, vec![("reenter", Json::Arr(re))]);
    }
    let shape_amb_unbounded_loser = rng.below(30) == 0;
    let cause = if shape_amb_unbounded_loser {
      // amb whose first input signals inside subscribe and stays open (hot source behind start_with),
      // followed by unbounded synchronous inputs: they lose at once and must be cancelled at their
      // first signal, although the stream is still open
      next_src = 1;
      let first = Json::obj(vec![("op", Json::str("start_with")), ("a", Json::Int(rng.below(4) as i64)), ("in", Json::obj(vec![("src", Json::Int(0))]))]);
      let mut ins = vec![first];
      for _ in 0..rng.range(1, 2) {
        ins.push(Json::obj(vec![("new", Json::str(*rng.pick(&["repeat", "endless_iter"]))), ("a", Json::Int(rng.below(5) as i64))]));
      }
      Json::obj(vec![("multi", Json::str("amb")), ("ins", Json::Arr(ins))])
    } else {
      match rng.below(10) {
      0..=4 => {
        let op = *rng.pick(CAUSES_UNARY);
        let a = match op {
          "take" | "element_at" | "take_last" => rng.range(0, 3) as i64,
          "dematerialize" => rng.range(10, 29) as i64,
          "retry" => rng.range(1, 3) as i64,
          "on_error_resume_next" => *rng.pick(&[0i64, 2, 4]),
          _ => rng.below(30) as i64,
        };
        let input = Json::obj(vec![("op", Json::str("probe")), ("a", Json::Int(1)), ("in", pipe::gen_node(rng, &g, depth, &mut next_src))]);
        Json::obj(vec![("op", Json::str(op)), ("a", Json::Int(a)), ("in", input)])
      }
      5..=6 => {
        let k = rng.range(2, 3);
        let ins: Vec<Json> = (0..k).map(|_| pipe::gen_node(rng, &g, depth, &mut next_src)).collect();
        Json::obj(vec![("multi", Json::str(*rng.pick(CAUSES_MULTI))), ("ins", Json::Arr(ins))])
      }
      7 => {
        let a = pipe::gen_node(rng, &g, depth, &mut next_src);
        let b = pipe::gen_node(rng, &g, depth.min(1), &mut next_src);
        Json::obj(vec![("trig", Json::str(*rng.pick(&["take_until", "take_until", "skip_until", "sample", "switch_on_next"]))), ("in", a), ("by", b)])
      }
      8 => Json::obj(vec![("op", Json::str("flat_map")), ("a", Json::Int(*rng.pick(&[0i64, 1, 3, 3]))), ("in", pipe::gen_node(rng, &g, depth, &mut next_src))]),
      _ => pipe::gen_node(rng, &g, depth + 1, &mut next_src),
      }
    };
    let mut p = Json::obj(vec![("op", Json::str("probe")), ("a", Json::Int(0)), ("in", cause)]);
    // downstream context: source-free unary operators
    for _ in 0..rng.below(3) {
      let op = *rng.pick(&["map", "filter", "scan", "tap", "take", "skip", "distinct_until_changed", "materialize", "buffer_with_count", "default_if_empty", "start_with", "mat_demat"]);
      p = Json::obj(vec![("op", Json::str(op)), ("a", Json::Int(rng.below(4) as i64)), ("in", p)]);
    }
    let mut sources = gen_sources(rng, nsrc, 4, false, &[Mode::Hot, Mode::Hot, Mode::Subject]);
    // retry needs a source whose later subscriptions differ
    for s in sources.iter_mut() {
      if s.mode == Mode::Hot && rng.below(3) == 0 {
        s.scripts.push(gen_script(rng, 900, 3, true));
      }
    }
    let mut order = gen_order(rng, &sources, 2);
    if rng.below(3) == 0 {
      let pz = rng.below(order.len() as u64 + 1) as usize;
      order.insert(pz, ACT_UNSUB);
    }
    // sometimes the subscriber steps a source again from inside its callback (a further emission
    // reaches the operator while the item that satisfies it is still being delivered)
    let mut re = Vec::new();
    if rng.below(5) == 0 {
      re.push(Json::obj(vec![("on", Json::str("next")), ("do", Json::Int(rng.below(nsrc as u64) as i64))]));
    }
    spec_to_json(p, &sources, &order, vec![("reenter", Json::Arr(re))])
  }
  fn exec(&self, w: &Json, cfg: RunCfg) -> RunOut {
    let spec = match spec_from_json(w) {
      Some(s) => s,
      None => return RunOut::invalid(),
    };
    for s in &spec.sources {
      for sc in &s.scripts {
        let nterm = sc.iter().filter(|x| !matches!(x, Step::N(_))).count();
        if nterm > 1 || (nterm == 1 && matches!(sc.last(), Some(Step::N(_)))) {
          return RunOut::invalid();
        }
      }
    }
    let cause = match cause_node(&spec.pipeline) {
      Some(c) => c.clone(),
      None => return RunOut::invalid(),
    };
    let mut cfg = cfg;
    cfg.step_budget = 40_000;
    let r = run_seq(&spec, cfg);
    if !r.built {
      return RunOut::invalid();
    }
    let history = history(&r);
    let mut v = Vec::new();
    let blame = crate::c01::blame_of(&cause);
    let pshow = pipe::show(&spec.pipeline);
    let nsrc = spec.sources.len();
    let mut below = Vec::new();
    pipe::sources_used(&cause, nsrc, &mut below);
    below.sort();
    below.dedup();
    let mut all_used = Vec::new();
    pipe::sources_used(&spec.pipeline, nsrc, &mut all_used);
    let uses_endless = pshow.contains("repeat(") || pshow.contains("endless_iter(") || pshow.contains("start_with_endless(");
    match &r.res.outcome {
      rxsim_rt::Outcome::Ok => {
        let evs = r.rec.events();
        // (what ended, instant, sources concerned)
        let mut ends: Vec<(String, u64, Vec<usize>, bool)> = Vec::new();
        if let Some(p0) = r.probes.first() {
          if let Some(t) = p0.events.iter().find(|e| e.ev.is_terminal()) {
            ends.push((format!("the operator '{}' finished ({} at its output)", blame, t.ev.show()), t.seq, below.clone(), false));
          }
        }
        if let Some(t) = evs.iter().find(|e| e.ev.is_terminal()) {
          ends.push((format!("the subscriber received {}", t.ev.show()), t.seq_out, (0..nsrc).collect(), true));
        }
        if let Some(u) = r.unsubs.first() {
          ends.push(("unsubscribe returned".to_string(), u.1, (0..nsrc).collect(), true));
        }
        // emissions in progress at an instant (possibly nested: a re-entrant subscriber) may still
        // run to their end; attempts that start after all of them returned are judged
        let horizon = |at: u64| -> u64 {
          let mut h = at;
          // during subscribe() (cold sources play there) the driver action in progress is subscribe itself
          if at < r.subscribe_returned {
            h = r.subscribe_returned;
          }
          for l in &r.src_logs {
            for e in l.lock().unwrap().emits.iter().filter(|e| e.seq_start < at && e.seq_end > at) {
              h = h.max(e.seq_end);
            }
          }
          for e in r.subject_emits.iter().filter(|e| e.seq_start < at && e.seq_end > at) {
            h = h.max(e.seq_end);
          }
          h
        };
        for (what, at0, srcs, _) in &ends {
          let at = &horizon(*at0);
          for i in srcs {
            let l = r.src_logs[*i].lock().unwrap();
            // the emission during which the end happened is still "this" emission; judge the next ones
            for e in l.emits.iter().filter(|e| e.seq_start > *at) {
              if e.sub_before {
                v.push(Violation::new(
                  "source-still-subscribed",
                  &blame,
                  format!("pipeline {}: {} at {}, yet src{} (subscription #{}) still saw is_subscribed()==true when it tried to emit {} at {}", pshow, what, at, i, e.sub, e.step.show(), e.seq_start),
                ));
                break;
              }
            }
            for e in r.subject_emits.iter().filter(|e| e.src == *i && e.seq_start > *at) {
              if e.observers_before > 0 {
                v.push(Violation::new(
                  "subject-still-holds-observer",
                  &blame,
                  format!("pipeline {}: {} at {}, yet subject src{} still held {} observer(s) when {} was pushed at {}", pshow, what, at, i, e.observers_before, e.step.show(), e.seq_start),
                ));
                break;
              }
            }
          }
        }
        // an operator that "has all it needs" according to its input history (seen by probe 1 on its
        // input edge) must have torn its upstream down, whether or not it managed to finish itself
        if let (Some(cop), Some(p1)) = (cause.get("op").and_then(|x| x.as_str()), r.probes.get(1)) {
          let has_input_probe = cause.get("in").map_or(false, |i| i.get("op").and_then(|x| x.as_str()) == Some("probe") && i.i("a") == 1);
          if has_input_probe && p1.subscribed.len() <= 1 {
            let a = cause.i("a");
            let items: Vec<(u64, i64)> = p1.events.iter().filter_map(|e| if let Ev::Next(x) = &e.ev { Some((e.seq, x.int())) } else { None }).collect();
            let vals: Vec<(u64, crate::val::Val)> = p1.events.iter().filter_map(|e| if let Ev::Next(x) = &e.ev { Some((e.seq, x.clone())) } else { None }).collect();
            let pr = |k: i64, x: i64| -> bool {
              match k.rem_euclid(3) {
                0 => x % 10 < (k / 3).rem_euclid(10),
                1 => x % 2 == 0,
                _ => x % 10 != (k / 3).rem_euclid(10),
              }
            };
            let satisfied: Option<u64> = match cop {
              "take" => items.get((a.clamp(0, 8).max(1) - 1) as usize).map(|x| x.0),
              "first" => items.first().map(|x| x.0),
              "element_at" => items.get((a.clamp(0, 8).max(1) - 1) as usize).map(|x| x.0),
              "take_while" | "all" => items.iter().find(|(_, x)| !pr(a, *x)).map(|x| x.0),
              "contains" => vals.iter().find(|(_, x)| *x == crate::val::Val::Int(a)).map(|x| x.0),
              _ => None,
            };
            if let Some(s_at) = satisfied {
              // the emissions in progress at that instant (possibly nested) may still run; later ones are judged.
              // contains / all tear their source down *before* they deliver the verdict (take_while: before
              // it completes downstream), so there even an emission attempted from inside that delivery
              // is already judged
              // - provided the verdict was caused by an item travelling down: while an upstream
              // *terminal* is travelling down, the stages above are in the middle of their own
              // completion (they have already dropped their upstream registrations and sweep the
              // rest when the call returns), so an abort from below cannot reach their siblings yet
              let only_items_in_progress = r.src_logs.iter().all(|l| l.lock().unwrap().emits.iter().filter(|e| e.seq_start < s_at && e.seq_end > s_at).all(|e| matches!(e.step, Step::N(_))))
                && r.subject_emits.iter().filter(|e| e.seq_start < s_at && e.seq_end > s_at).all(|e| matches!(e.step, Step::N(_)));
              // (creation functions such as just / from_iter are not instrumented: they play - and
              // complete - inside subscribe, so nothing is judged without horizon there either)
              // - and only when the operator sits directly on its sources (plain sources, possibly
              // merged): behind other operators an item can itself be the product of a completion
              // further up (count / reduce / last / default_if_empty ... emit when their input ends,
              // and a trigger item or a last item ends take_until / take), with the same effect
              fn direct_input(n: &Json) -> bool {
                if n.get("src").is_some() || n.get("new").is_some() {
                  return true;
                }
                n.get("multi").and_then(|x| x.as_str()) == Some("merge") && n.a("ins").iter().all(direct_input)
              }
              let direct = cause.get("in").and_then(|p1| p1.get("in")).map_or(false, direct_input);
              let horizon = if (cop == "contains" || cop == "all" || cop == "take_while") && direct && only_items_in_progress && s_at > r.subscribe_returned { s_at } else { horizon(s_at) };
              for i in &below {
                let l = r.src_logs[*i].lock().unwrap();
                if let Some(e) = l.emits.iter().find(|e| e.seq_start > horizon && e.sub_before) {
                  v.push(Violation::new(
                    "source-still-subscribed",
                    &blame,
                    format!("pipeline {}: '{}' had all it needs once its input delivered the item at {}, yet src{} (subscription #{}) still saw is_subscribed()==true when it tried to emit {} at {}", pshow, cop, s_at, i, e.sub, e.step.show(), e.seq_start),
                  ));
                }
                if let Some(e) = r.subject_emits.iter().find(|e| e.src == *i && e.seq_start > horizon && e.observers_before > 0) {
                  v.push(Violation::new(
                    "subject-still-holds-observer",
                    &blame,
                    format!("pipeline {}: '{}' had all it needs once its input delivered the item at {}, yet subject src{} still held {} observer(s) when {} was pushed at {}", pshow, cop, s_at, i, e.observers_before, e.step.show(), e.seq_start),
                  ));
                }
              }
            }
          }
        }
        // a failed attempt under retry / retry_when / on_error_resume_next: everything that was
        // subscribed on behalf of that attempt - also the siblings of the input that failed - is
        // released, whether or not a further attempt follows
        if let (Some(cop), Some(p1)) = (cause.get("op").and_then(|x| x.as_str()), r.probes.get(1)) {
          let has_input_probe = cause.get("in").map_or(false, |i| i.get("op").and_then(|x| x.as_str()) == Some("probe") && i.i("a") == 1);
          if has_input_probe && ["retry", "retry_when", "on_error_resume_next"].contains(&cop) {
            if let Some(f) = p1.events.iter().find(|e| e.sub == 0 && matches!(e.ev, Ev::Error(_))) {
              let hz = horizon(f.seq);
              fn under_flat_map(n: &Json, inside: bool, i: usize, hit: &mut bool) {
                if n.get("src").and_then(|x| x.as_i64()) == Some(i as i64) && inside {
                  *hit = true;
                }
                let fm = inside || n.get("op").and_then(|x| x.as_str()) == Some("flat_map") || n.get("trig").and_then(|x| x.as_str()) == Some("switch_on_next");
                for k in ["in", "by"] {
                  if let Some(x) = n.get(k) {
                    under_flat_map(x, fm, i, hit);
                  }
                }
                for x in n.a("ins") {
                  under_flat_map(&x, fm, i, hit);
                }
              }
              for i in &below {
                // instrumented hot sources used once, not resubscribed per item
                if all_used.iter().filter(|x| *x == i).count() != 1 || spec.sources[*i].mode != Mode::Hot {
                  continue;
                }
                let mut hit = false;
                under_flat_map(&spec.pipeline, false, *i, &mut hit);
                if hit {
                  continue;
                }
                let l = r.src_logs[*i].lock().unwrap();
                // its subscription #0 was made for the attempt that failed
                if !l.subscriptions.first().map_or(false, |s| s.0 < f.seq) {
                  continue;
                }
                // retry aborts the failed attempt before it subscribes the next one: from that
                // instant on (no horizon: this is inside the error notification) it is released
                let resubscribed = if cop == "on_error_resume_next" { None } else { p1.subscribed.get(1).copied() };
                if let Some(e) = l.emits.iter().find(|e| e.sub == 0 && e.sub_before && (e.seq_start > hz || resubscribed.map_or(false, |r2| e.seq_start > r2))) {
                  v.push(Violation::new(
                    "failed-attempt-still-subscribed",
                    &blame,
                    format!("pipeline {}: the first attempt under '{}' failed at {}, yet src{} (the subscription made for that attempt) still saw is_subscribed()==true when it tried to emit {} at {}", pshow, cop, f.seq, i, e.step.show(), e.seq_start),
                  ));
                }
              }
            }
          }
        }
        // nothing is delivered after the subscription ended
        if let Some(end) = ends.iter().filter(|e| e.3).map(|e| e.1).min() {
          for e in &evs {
            if e.seq_in > end {
              v.push(Violation::new("delivered-after-end", &blame, format!("pipeline {}: {} delivered at {} after the subscription had ended at {}", pshow, e.ev.show(), e.seq_in, end)));
            }
          }
          for (i, n) in &r.subject_counts_end {
            if *n > 0 && all_used.contains(i) {
              v.push(Violation::new("subject-still-holds-observer", &blame, format!("pipeline {}: the subscription ended at {} but subject src{} still holds {} observer(s) at the end of the run", pshow, end, i, n)));
            }
          }
        }
        // a failed retry attempt: the observer of the failed subscription is dead afterwards
        if cause.get("op").and_then(|x| x.as_str()) == Some("retry") {
          if let Some(i) = cause.get("in").and_then(|x| x.get("src")).and_then(|x| x.as_i64()) {
            let l = r.src_logs[i as usize].lock().unwrap();
            let fail = l.emits.iter().find(|e| e.sub == 0 && matches!(e.step, Step::E(_)) && e.sub_before);
            if let Some(f) = fail {
              if let Some(e) = l.emits.iter().find(|e| e.sub == 0 && e.seq_start > f.seq_end && e.sub_before) {
                v.push(Violation::new("source-still-subscribed", "retry", format!("pipeline {}: the first attempt failed at {}, yet its observer still saw is_subscribed()==true at {}", pshow, f.seq_start, e.seq_start)));
              }
            }
          }
        }
        // amb's losers: false at the latest from their second attempt after the win
        if cause.get("multi").and_then(|x| x.as_str()) == Some("amb") {
          if let Some(first) = r.probes.first().and_then(|p| p.events.first()) {
            let w_at = first.seq;
            let ins = cause.a("ins");
            let mut winner: Option<usize> = None;
            for (k, inp) in ins.iter().enumerate() {
              let mut su = Vec::new();
              pipe::sources_used(inp, nsrc, &mut su);
              for i in su {
                let l = r.src_logs[i].lock().unwrap();
                if l.emits.iter().any(|e| e.seq_start < w_at && e.seq_end > w_at) || r.subject_emits.iter().any(|e| e.src == i && e.seq_start < w_at && e.seq_end > w_at) {
                  winner = Some(k);
                }
              }
            }
            if let Some(wk) = winner {
              for (k, inp) in ins.iter().enumerate() {
                if k == wk {
                  continue;
                }
                let mut su = Vec::new();
                pipe::sources_used(inp, nsrc, &mut su);
                // only inputs that are plain sources: operators in between may hide the attempt
                if inp.get("src").is_none() {
                  continue;
                }
                let mut wsu = Vec::new();
                pipe::sources_used(&ins[wk], nsrc, &mut wsu);
                for i in su {
                  // judged only if this source occurs once in the whole pipeline (otherwise the
                  // attempts of its different subscriptions cannot be told apart from here)
                  if wsu.contains(&i) || all_used.iter().filter(|x| **x == i).count() != 1 {
                    continue;
                  }
                  let l = r.src_logs[i].lock().unwrap();
                  let after: Vec<&Emit> = l.emits.iter().filter(|e| e.seq_start > w_at).collect();
                  // per subscription of that source: the first attempt after the win may still see true
                  let mut seen = std::collections::BTreeSet::new();
                  if let Some(e) = after.iter().find(|e| !seen.insert(e.sub) && e.sub_before) {
                    v.push(Violation::new("amb-loser-still-subscribed", "amb", format!("pipeline {}: input {} won at {}, yet loser src{} still saw is_subscribed()==true on its second attempt at {}", pshow, wk, w_at, i, e.seq_start)));
                  }
                }
              }
            }
          }
        }
      }
      rxsim_rt::Outcome::Livelock { .. }
        if uses_endless && (r.rec.events().iter().any(|e| e.ev.is_terminal()) || r.probes.first().map_or(false, |p| p.events.iter().any(|e| e.ev.is_terminal()))) =>
      {
        v.push(Violation::new("producer-not-stopped", &blame, format!("pipeline {}: the stream had ended, yet an unbounded producer kept running - {}", pshow, r.res.outcome.describe())));
      }
      // amb: unbounded synchronous inputs subscribed after the first input has already won (it
      // signals inside subscribe: a source behind start_with) must be cancelled at their first
      // signal - the stream is still open, yet subscribe must return
      rxsim_rt::Outcome::Livelock { .. } if uses_endless && cause.get("multi").and_then(|x| x.as_str()) == Some("amb") => {
        let ins = cause.a("ins");
        let is_endless = |n: &Json| matches!(n.get("new").and_then(|x| x.as_str()), Some("endless_iter") | Some("repeat"));
        let first_wins_at_subscribe = ins.first().map_or(false, |f| f.get("op").and_then(|x| x.as_str()) == Some("start_with") && f.get("in").map_or(false, |x| x.get("src").is_some()));
        if first_wins_at_subscribe && ins.len() >= 2 && ins.iter().skip(1).all(|n| is_endless(n)) {
          v.push(Violation::new("amb-loser-not-cancelled", "amb", format!("pipeline {}: the first input wins inside subscribe, yet an unbounded input subscribed afterwards was never cancelled - {}", pshow, r.res.outcome.describe())));
        }
      }
      _ => {}
    }
    let reach = vec![
      ("c06-cause-finished-before-subscription", r.probes.first().map_or(false, |p| p.events.iter().any(|e| e.ev.is_terminal())) as u64),
      ("c06-emission-attempt-after-end", {
        let end = r.probes.first().and_then(|p| p.events.iter().find(|e| e.ev.is_terminal()).map(|e| e.seq));
        end.map_or(false, |at| r.src_logs.iter().any(|l| l.lock().unwrap().emits.iter().any(|e| e.seq_start > at)) || r.subject_emits.iter().any(|e| e.seq_start > at)) as u64
      }),
      ("c06-endless-producer", uses_endless as u64),
      ("c06-run-blocked", (!r.res.outcome.is_ok()) as u64),
    ];
    RunOut { fingerprint: fp(&history), res: r.res, violations: v, invalid: false, reach, history }
  }
  fn shrink(&self, w: &Json) -> Vec<Json> {
    // shrink below and above probe0, never remove the probe itself
    crate::c01::shrink_pipeline_field(w).into_iter().filter(|c| c.get("pipeline").map_or(false, |p| cause_node(p).is_some())).collect()
  }
}

// ================================================================================================
// upstreams registered concurrently

/// Several producer threads feed one Subject whose items `flat_map` turns into hot inner sources,
/// so inner streams are registered with one controller from several threads at once. Then the
/// subscription ends (unsubscribe - possibly from yet another thread while registrations are in
/// progress -, take downstream, an error of the outer source). At quiescence every inner source
/// must see is_subscribed()==false and the outer Subject must hold no observer.
pub struct C06Thr;

impl Family for C06Thr {
  fn name(&self) -> &'static str {
    "c06-teardown-concurrent-registration"
  }
  fn threaded(&self) -> bool {
    true
  }
  fn gen(&self, rng: &mut Rng, _tier: Tier) -> Json {
    let np = rng.range(2, 3);
    Json::obj(vec![
      ("producers", Json::Arr((0..np).map(|_| Json::Int(rng.range(1, 2) as i64)).collect())),
      ("ending", Json::str(*rng.pick(&["unsubscribe", "unsubscribe-concurrent", "take", "outer-error", "inner-error"]))),
      ("unsub_wait", Json::Int(rng.below(12) as i64)),
      ("take", Json::Int(rng.range(1, 2) as i64)),
      ("via", Json::str(*rng.pick(&["flat_map", "flat_map", "flat_map+map"]))),
    ])
  }
  fn exec(&self, w: &Json, cfg: RunCfg) -> RunOut {
    use another_rxrust::prelude::*;
    use rxsim_rt as rt;
    use std::sync::{Arc, Mutex};
    let counts: Vec<i64> = w.a("producers").iter().filter_map(|x| x.as_i64()).collect();
    let ending = w.s("ending");
    let via = w.s("via");
    if counts.is_empty() || counts.len() > 3 || counts.iter().any(|c| *c < 1 || *c > 3) || !["unsubscribe", "unsubscribe-concurrent", "take", "outer-error", "inner-error"].contains(&ending.as_str()) || !["flat_map", "flat_map+map"].contains(&via.as_str()) {
      return RunOut::invalid();
    }
    let unsub_wait = w.i("unsub_wait").clamp(0, 40);
    let take = w.i("take").clamp(1, 4);
    let total: usize = counts.iter().map(|c| *c as usize).sum();
    let inners: Vec<HotSource> = (0..total).map(|_| HotSource::new()).collect();
    let rec = Recorder::new();
    // (inner index, subscription index, still subscribed) at quiescence; outer observer count
    let snap: Arc<Mutex<(Vec<(usize, usize, bool)>, usize)>> = Arc::new(Mutex::new((Vec::new(), 0)));
    let (inners2, rec2, snap2, ending2, counts2) = (inners.clone(), rec.clone(), snap.clone(), ending.clone(), counts.clone());
    let res = rt::run(cfg, move || {
      let sbj = subjects::Subject::<Val>::new();
      let inn = inners2.clone();
      let mut o = sbj.observable().flat_map(move |x: Val| inn[x.int() as usize].observable());
      if via == "flat_map+map" {
        o = o.map(|x: Val| x);
      }
      if ending2 == "take" {
        o = o.take(take as usize);
      }
      let sub = rec2.subscribe(&o);
      let mut hs = Vec::new();
      let mut next_idx = 0usize;
      for (p, c) in counts2.iter().enumerate() {
        let mine: Vec<usize> = (next_idx..next_idx + *c as usize).collect();
        next_idx += *c as usize;
        let sbj = sbj.clone();
        hs.push(rt::spawn_harness(&format!("producer{}", p), move || {
          for i in mine {
            sbj.next(Val::Int(i as i64));
          }
        }));
      }
      if ending2 == "unsubscribe-concurrent" {
        let sub = sub.clone();
        hs.push(rt::spawn_harness("unsubscriber", move || {
          for _ in 0..unsub_wait {
            rt::probe("c06-unsubscriber-wait");
          }
          sub.unsubscribe();
        }));
      }
      for h in hs {
        let _ = h.join();
      }
      match ending2.as_str() {
        "unsubscribe" => sub.unsubscribe(),
        "outer-error" => sbj.error(mk_err(5)),
        "inner-error" => inners2[0].step_all(&Step::E(6)),
        "take" => {
          for k in 0..take {
            inners2[(k as usize) % inners2.len()].step_all(&Step::N(700 + k));
          }
        }
        _ => {}
      }
      rt::quiesce();
      let mut g = snap2.lock().unwrap();
      for (i, h) in inners2.iter().enumerate() {
        for k in 0..h.n_subscribed() {
          g.0.push((i, k, h.is_subscribed(k) == Some(true)));
        }
      }
      g.1 = sbj.verif_observer_count();
    });
    let blame = "flat_map";
    let mut v = Vec::new();
    let snap = snap.lock().unwrap().clone();
    let mut history: Vec<String> = Vec::new();
    for (i, k, alive) in &snap.0 {
      history.push(format!("inner source {} subscription #{}: is_subscribed()=={} at quiescence", i, k, alive));
    }
    history.push(format!("outer subject holds {} observer(s) at quiescence", snap.1));
    history.push(format!("subscriber saw [{}]", rec.shown()));
    if let Some(o) = outcome_violation(&res, blame) {
      v.push(o);
    } else {
      let ended = ending != "take" || rec.events().iter().any(|e| e.ev.is_terminal());
      if ended {
        for (i, k, alive) in &snap.0 {
          if *alive {
            v.push(Violation::new("source-still-subscribed", blame, format!("{} producer threads fed flat_map, then the subscription ended by '{}': inner source {} (subscription #{}) still sees is_subscribed()==true at quiescence; subscriber saw [{}]", counts.len(), ending, i, k, rec.shown())));
          }
        }
        if snap.1 != 0 {
          v.push(Violation::new("subject-still-holds-observer", blame, format!("the subscription ended by '{}', yet the outer subject still holds {} observer(s)", ending, snap.1)));
        }
      }
    }
    let reach = vec![("c06-inner-streams-registered", snap.0.len() as u64)];
    RunOut { fingerprint: fp(&history), res, violations: v, invalid: false, reach, history }
  }
}

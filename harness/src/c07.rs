//! C07 - no call into the library blocks forever (DESIGN.md 5.7)
//!
//! The runtime is the oracle: a run that ends as self-deadlock, deadlock, livelock or panic is
//! the violation. The scenario catalogue is (a) every threaded family and (b) every single-task
//! family of the other properties, re-run with only this oracle, under both RwLock policies and
//! with one stalled thread; (c) the `reenter` family: subscriber callbacks that call back into
//! the library on the same thread.

use crate::common::*;
use crate::json::Json;
use crate::pipe;
use crate::rec::*;
use crate::val::*;
use another_rxrust::prelude::*;
use rxsim_rt as rt;
use rxsim_rt::prng::Rng;
use rxsim_rt::{Outcome, RunCfg};
use std::sync::{Arc, Mutex};

pub struct Wrap {
  pub inner: Box<dyn Family>,
  pub name: &'static str,
}

/// pipelines whose non-termination is by definition, not a defect: unbounded retry over a source
/// that always fails, or an unbounded producer (judged by C06 when the subscription has ended)
fn unbounded_by_definition(w: &Json) -> bool {
  fn rec(n: &Json) -> bool {
    if let Some(op) = n.get("op").and_then(|x| x.as_str()) {
      if op == "retry_when" || (op == "retry" && n.i("a") == 0) {
        return true;
      }
    }
    if let Some(nw) = n.get("new").and_then(|x| x.as_str()) {
      if nw == "repeat" || nw == "endless_iter" {
        return true;
      }
    }
    for k in ["in", "by"] {
      if let Some(x) = n.get(k) {
        if rec(x) {
          return true;
        }
      }
    }
    n.a("ins").iter().any(rec)
  }
  w.get("pipeline").map_or(false, rec)
}

fn blocked_violation(res: &rt::RunResult, blame: &str, w: &Json) -> Option<Violation> {
  match &res.outcome {
    Outcome::Ok | Outcome::Leak { .. } => None,
    Outcome::Livelock { .. } if unbounded_by_definition(w) => None,
    o => Some(Violation::new(o.class(), blame, o.describe())),
  }
}

/// blame unit of a blocked run: the acquisition site(s) named by the runtime
fn blame_from_outcome(o: &Outcome) -> String {
  let d = o.describe();
  // first "src/....rs" path mentioned
  if let Some(i) = d.find("src/") {
    let rest = &d[i..];
    let end = rest.find(".rs").map(|e| e + 3).unwrap_or(rest.len().min(40));
    return rest[..end].to_string();
  }
  o.class().to_string()
}

impl Family for Wrap {
  fn name(&self) -> &'static str {
    self.name
  }
  fn threaded(&self) -> bool {
    self.inner.threaded()
  }
  fn gen(&self, rng: &mut Rng, tier: Tier) -> Json {
    self.inner.gen(rng, tier)
  }
  fn knobs(&self, rng: &mut Rng, w: &Json, tier: Tier) -> Json {
    let mut k = self.inner.knobs(rng, w, tier);
    if let Json::Obj(m) = &mut k {
      // both RwLock policies equally, and sometimes one stalled thread
      m.insert("writer_pref".into(), Json::Bool(rng.below(2) == 0));
      if self.inner.threaded() && rng.below(5) == 0 {
        m.insert("strategy".into(), Json::str(format!("starve{}", rng.range(0, 3))));
      }
    }
    k
  }
  fn exec(&self, w: &Json, cfg: RunCfg) -> RunOut {
    let mut out = self.inner.exec(w, cfg);
    if out.invalid {
      return out;
    }
    let blame = blame_from_outcome(&out.res.outcome);
    let mut vs: Vec<Violation> = blocked_violation(&out.res, &blame, w).into_iter().collect();
    // an unbounded producer is not judged for spinning by itself - but the inner family's oracle
    // knows when it spins on a subscription that has ended or that it has lost (amb)
    if vs.is_empty() && matches!(out.res.outcome, Outcome::Livelock { .. }) {
      vs.extend(out.violations.iter().filter(|v| v.class == "producer-not-stopped" || v.class == "amb-loser-not-cancelled").cloned());
    }
    out.violations = vs;
    out
  }
  fn shrink(&self, w: &Json) -> Vec<Json> {
    self.inner.shrink(w)
  }
  fn explains(&self, pred: &str, _w: &Json, v: &Violation) -> bool {
    explains_c07(pred, v)
  }
}

pub fn explains_c07(pred: &str, v: &Violation) -> bool {
  match pred {
    "held-in-replay-hand-over" => v.detail.contains("while holding a read lock acquired at src/subjects/replay_subject.rs"),
    _ => false,
  }
}

// ================================================================================================
// re-entrant callbacks

pub struct Reenter;

const RE_OPS: &[&str] = &[
  "none", "map", "filter", "take", "skip", "take_last", "skip_last", "take_while", "skip_while", "first", "last", "element_at",
  "distinct_until_changed", "scan", "reduce", "count", "sum", "min", "max", "all", "contains", "default_if_empty", "ignore_elements",
  "start_with", "buffer_with_count", "window_with_count", "group_by", "materialize", "mat_demat", "tap", "map_to_any", "flat_map",
  "on_error_resume_next", "retry", "time_interval", "timestamp", "publish_ref_count", "replay", "delay", "sample_self",
];
const RE_ACTIONS: &[&str] = &["unsubscribe", "emit", "complete", "error", "subscribe"];

#[derive(Clone)]
enum Subj {
  Plain(subjects::Subject<'static, Val>),
  Behavior(subjects::BehaviorSubject<'static, Val>),
  Replay(subjects::ReplaySubject<'static, Val>),
  Async(subjects::AsyncSubject<'static, Val>),
}

impl Subj {
  fn make(kind: &str) -> Option<Subj> {
    Some(match kind {
      "subject" => Subj::Plain(subjects::Subject::new()),
      "behavior" => Subj::Behavior(subjects::BehaviorSubject::new(Val::Int(1))),
      "replay" => Subj::Replay(subjects::ReplaySubject::new()),
      "async" => Subj::Async(subjects::AsyncSubject::new()),
      _ => return None,
    })
  }
  fn step(&self, s: &Step) {
    match (self, s) {
      (Subj::Plain(x), Step::N(i)) => x.next(Val::Int(*i)),
      (Subj::Plain(x), Step::E(i)) => x.error(mk_err(*i)),
      (Subj::Plain(x), Step::C) => x.complete(),
      (Subj::Behavior(x), Step::N(i)) => x.next(Val::Int(*i)),
      (Subj::Behavior(x), Step::E(i)) => x.error(mk_err(*i)),
      (Subj::Behavior(x), Step::C) => x.complete(),
      (Subj::Replay(x), Step::N(i)) => x.next(Val::Int(*i)),
      (Subj::Replay(x), Step::E(i)) => x.error(mk_err(*i)),
      (Subj::Replay(x), Step::C) => x.complete(),
      (Subj::Async(x), Step::N(i)) => x.next(Val::Int(*i)),
      (Subj::Async(x), Step::E(i)) => x.error(mk_err(*i)),
      (Subj::Async(x), Step::C) => x.complete(),
    }
  }
  fn observable(&self) -> Observable<'static, Val> {
    match self {
      Subj::Plain(s) => s.observable(),
      Subj::Behavior(s) => s.observable(),
      Subj::Replay(s) => s.observable(),
      Subj::Async(s) => s.observable(),
    }
  }
}

impl Family for Reenter {
  fn name(&self) -> &'static str {
    "c07-reentrant-callbacks"
  }
  fn threaded(&self) -> bool {
    false
  }
  fn gen(&self, rng: &mut Rng, _tier: Tier) -> Json {
    let n = rng.range(1, 4);
    let mut script: Vec<Step> = (0..n).map(|i| Step::N(10 + i as i64)).collect();
    match rng.below(4) {
      0 => script.push(Step::E(3)),
      1 | 2 => script.push(Step::C),
      _ => {}
    }
    let nact = rng.range(1, 2);
    Json::obj(vec![
      ("subject", Json::str(*rng.pick(&["subject", "subject", "behavior", "replay", "async"]))),
      ("op", Json::str(*rng.pick(RE_OPS))),
      ("a", Json::Int(rng.below(4) as i64)),
      ("script", script_to_json(&script)),
      (
        "reenter",
        Json::Arr(
          (0..nact)
            .map(|_| {
              let on = *rng.pick(&["next", "next", "terminal", "closure", "hand-over", "tap"]);
              // a function parameter (predicate, accumulator, key function) that emits into its own
              // source recurses into the very computation it is part of (scan / reduce fold under
              // their accumulator lock): not judged; leaving and subscribing again are
              let acts: &[&str] = if on == "closure" { &["unsubscribe", "subscribe"] } else { RE_ACTIONS };
              Json::obj(vec![("on", Json::str(on)), ("do", Json::str(*rng.pick(acts)))])
            })
            .collect(),
        ),
      ),
    ])
  }
  fn exec(&self, w: &Json, cfg: RunCfg) -> RunOut {
    let kind = w.s("subject");
    if Subj::make(&kind).is_none() {
      return RunOut::invalid();
    }
    let op = w.s("op");
    if !RE_OPS.contains(&op.as_str()) {
      return RunOut::invalid();
    }
    // retry(0) is unbounded: over a subject that keeps failing it spins by definition
    let a = if op == "retry" { w.i("a").clamp(1, 4) } else { w.i("a").clamp(0, 8) };
    let script = match w.get("script").and_then(script_from_json) {
      Some(s) if s.len() <= 8 => s,
      _ => return RunOut::invalid(),
    };
    // where the callback re-enters: the subscriber's next / terminal callback, a closure handed
    // to the operator (predicate, accumulator, key function, tap callback, flat_map function), or
    // the stage that is handed an inner observable of group_by / window_with_count
    let mut acts: Vec<(&'static str, String)> = Vec::new();
    for r in w.a("reenter") {
      let on_t = match r.s("on").as_str() {
        "terminal" => "terminal",
        "next" => "next",
        "closure" => "closure",
        "hand-over" => "hand-over",
        "tap" => "tap",
        _ => return RunOut::invalid(),
      };
      let d = r.s("do");
      if !RE_ACTIONS.contains(&d.as_str()) || (on_t == "closure" && !["unsubscribe", "subscribe"].contains(&d.as_str())) {
        return RunOut::invalid();
      }
      acts.push((on_t, d));
    }
    if acts.len() > 3 {
      return RunOut::invalid();
    }
    let mut cfg = cfg;
    cfg.step_budget = 30_000;
    let rec = Recorder::new();
    let rec_b = Recorder::new();
    let (rec2, rec_b2, kind2, op2, script2) = (rec.clone(), rec_b.clone(), kind.clone(), op.clone(), script.clone());
    let res = rt::run(cfg, move || {
      let sbj = Subj::make(&kind2).unwrap();
      let base = sbj.observable();
      let sub_cell: Arc<Mutex<Option<Subscription<'static>>>> = Arc::new(Mutex::new(None));
      let pipeline: Arc<Mutex<Option<Observable<'static, Val>>>> = Arc::new(Mutex::new(None));
      let pending = Arc::new(Mutex::new(acts));
      let extra = Arc::new(Mutex::new(Vec::new()));
      // performs the first pending action registered for that site, on the calling thread
      let act_at: Arc<dyn Fn(&'static str) + Send + Sync> = {
        let (sbj, sub_cell, pipeline, rec_b) = (sbj.clone(), sub_cell.clone(), pipeline.clone(), rec_b2);
        Arc::new(move |site: &'static str| {
          let act = {
            let mut p = pending.lock().unwrap();
            match p.iter().position(|(on, _)| *on == site) {
              Some(k) => Some(p.remove(k).1),
              None => None,
            }
          };
          match act.as_deref() {
            Some("unsubscribe") => {
              let s = sub_cell.lock().unwrap().clone();
              if let Some(s) = s {
                s.unsubscribe();
              }
            }
            Some("emit") => sbj.step(&Step::N(77)),
            Some("complete") => sbj.step(&Step::C),
            Some("error") => sbj.step(&Step::E(9)),
            Some("subscribe") => {
              let o2 = pipeline.lock().unwrap().clone();
              if let Some(o2) = o2 {
                let s = rec_b.subscribe(&o2);
                extra.lock().unwrap().push(s);
              }
            }
            _ => {}
          }
        })
      };
      let o: Observable<'static, Val> = match op2.as_str() {
        "none" => base,
        "publish_ref_count" => base.ref_count().observable(),
        "replay" => base.replay().observable(),
        // the subject samples itself: the trigger fires with an item pending
        "sample_self" => base.sample(base.clone()),
        name => {
          let mut ctx = pipe::Ctx::new(vec![base]);
          ctx.closure_hook = pipe::ClosureHook(Some(act_at.clone()));
          let j = Json::obj(vec![("op", Json::str(name)), ("a", Json::Int(a)), ("in", Json::obj(vec![("src", Json::Int(0))]))]);
          match pipe::build(&j, &ctx) {
            Some(o) => o,
            None => return,
          }
        }
      };
      *pipeline.lock().unwrap() = Some(o.clone());
      let mut r = rec2;
      {
        let act_at = act_at.clone();
        r.hook = Some(Arc::new(move |ev: &Ev| act_at(if ev.is_terminal() { "terminal" } else { "next" })));
      }
      let sub = r.subscribe(&o);
      *sub_cell.lock().unwrap() = Some(sub.clone());
      for st in &script2 {
        sbj.step(st);
      }
      *sub_cell.lock().unwrap() = None;
      *pipeline.lock().unwrap() = None;
    });
    let blame = if op == "none" {
      match kind.as_str() {
        "subject" => "subject".to_string(),
        "behavior" => "behavior_subject".to_string(),
        "replay" => "replay_subject".to_string(),
        _ => "async_subject".to_string(),
      }
    } else {
      op.clone()
    };
    // the acquisition site named by the runtime identifies the culprit better than the scenario
    let blame = if res.outcome.is_ok() { blame } else { blame_from_outcome(&res.outcome) };
    let v: Vec<Violation> = blocked_violation(&res, &blame, &Json::Null).into_iter().collect();
    let mut history: Vec<String> = Vec::new();
    history.push(format!("subscriber A: {}", rec.shown()));
    history.push(format!("subscriber B: {}", rec_b.shown()));
    let mut fp = 0u64;
    for h in &history {
      fp = fp.wrapping_mul(0x100000001B3) ^ fnv(h);
    }
    RunOut { res, violations: v, fingerprint: fp ^ 1, invalid: false, reach: vec![], history }
  }
  fn explains(&self, pred: &str, _w: &Json, v: &Violation) -> bool {
    explains_c07(pred, v)
  }
}

//! C08 - scheduler queue: FIFO, one task at a time, each at most once, clean stop.
//!
//! 1..3 caller tasks issue post/abort (some posted tasks post or abort from inside); the
//! worker is the real `NewThreadScheduler` thread running under the simulator. The recorded
//! history is checked against the statement (DESIGN.md 5.8).

use crate::common::*;
use crate::json::Json;
use another_rxrust::prelude::schedulers::{DefaultScheduler, IScheduler, NewThreadScheduler};
use rxsim_rt as rt;
use rxsim_rt::prng::Rng;
use rxsim_rt::{Origin, RunCfg};
#[allow(unused_imports)]
use rxsim_rt::TaskInfo;
use std::sync::{Arc, Mutex};

pub struct C08;

#[derive(Clone, Debug)]
enum Ev {
  PostInv { id: i64, by: usize, inside: bool },
  PostRet { id: i64 },
  AbortInv { by: usize },
  AbortRet { by: usize, worker_steps: u64 },
  Start { id: i64, runner: usize },
  End { id: i64, worker_steps: u64 },
  Quiesce { n: u8, worker_finished: bool, worker_steps: u64 },
}

type Log = Arc<Mutex<Vec<(u64, Ev)>>>;

fn log(l: &Log, e: Ev) {
  let s = rt::seq();
  l.lock().unwrap().push((s, e));
}

#[derive(Clone)]
enum Sched {
  New(NewThreadScheduler<'static>),
  Def(DefaultScheduler),
}

impl Sched {
  fn post(&self, f: Arc<dyn Fn() + Send + Sync>) {
    match self {
      Sched::New(s) => s.post(move || f()),
      Sched::Def(s) => s.post(move || f()),
    }
  }
  fn abort(&self) {
    match self {
      Sched::New(s) => s.abort(),
      Sched::Def(s) => s.abort(),
    }
  }
}

#[derive(Clone, Debug)]
enum Op {
  Post { id: i64, probes: i64, inner: Option<Box<Op>> },
  Abort,
  Yield,
  /// the caller idles for some virtual time
  Sleep(i64),
}

fn op_from_json(j: &Json) -> Option<Op> {
  match j.s("k").as_str() {
    "post" => Some(Op::Post {
      id: j.get("id")?.as_i64()?,
      probes: j.i("probes").clamp(0, 4),
      inner: match j.get("inner") {
        Some(Json::Null) | None => None,
        Some(x) => Some(Box::new(op_from_json(x)?)),
      },
    }),
    "abort" => Some(Op::Abort),
    "yield" => Some(Op::Yield),
    "sleep" => Some(Op::Sleep(j.i("ms").clamp(1, 10_000))),
    _ => None,
  }
}

fn collect_ids(op: &Op, out: &mut Vec<i64>) {
  if let Op::Post { id, inner, .. } = op {
    out.push(*id);
    if let Some(i) = inner {
      collect_ids(i, out);
    }
  }
}

fn worker_steps(_worker: Option<usize>) -> u64 {
  rt::tasks().iter().filter(|t| t.origin == Origin::Library).map(|t| t.steps).sum()
}

fn do_op(sched: &Sched, l: &Log, op: &Op, worker: Option<usize>, inside: bool) {
  let me = rt::task_id().unwrap_or(0);
  match op {
    Op::Post { id, probes, inner } => {
      let (id, probes, inner) = (*id, *probes, inner.clone());
      let (s2, l2) = (sched.clone(), l.clone());
      let body: Arc<dyn Fn() + Send + Sync> = Arc::new(move || {
        log(&l2, Ev::Start { id, runner: rt::task_id().unwrap_or(usize::MAX) });
        for _ in 0..probes {
          rt::probe("c08-in-task");
        }
        if let Some(i) = &inner {
          do_op(&s2, &l2, i, worker, true);
        }
        log(&l2, Ev::End { id, worker_steps: worker_steps(worker) });
      });
      log(l, Ev::PostInv { id, by: me, inside });
      sched.post(body);
      log(l, Ev::PostRet { id });
    }
    Op::Abort => {
      log(l, Ev::AbortInv { by: me });
      sched.abort();
      log(l, Ev::AbortRet { by: me, worker_steps: worker_steps(worker) });
    }
    Op::Yield => rt::probe("c08-caller-yield"),
    Op::Sleep(ms) => rt::thread::sleep(std::time::Duration::from_millis(*ms as u64)),
  }
}

impl Family for C08 {
  fn name(&self) -> &'static str {
    "c08-scheduler-queue"
  }
  fn threaded(&self) -> bool {
    true
  }

  fn gen(&self, rng: &mut Rng, tier: Tier) -> Json {
    let max_callers = 3;
    let max_ops = if tier == Tier::Quick { 4 } else { 5 };
    let ncallers = rng.range(1, max_callers);
    let mut next_id = 0;
    let mut gen_post = |rng: &mut Rng, depth: u32| -> Json {
      fn mk(rng: &mut Rng, next_id: &mut i64, depth: u32) -> Json {
        let id = *next_id;
        *next_id += 1;
        let inner = if depth < 2 {
          match rng.below(20) {
            0..=4 => mk(rng, next_id, depth + 1),
            5..=6 => Json::obj(vec![("k", Json::str("abort"))]),
            _ => Json::Null,
          }
        } else {
          Json::Null
        };
        Json::obj(vec![("k", Json::str("post")), ("id", Json::Int(id)), ("probes", Json::Int(rng.below(3) as i64)), ("inner", inner)])
      }
      mk(rng, &mut next_id, depth)
    };
    let abort_rate = *rng.pick(&[0u64, 10, 20, 35]);
    let mut callers = Vec::new();
    for _ in 0..ncallers {
      let nops = rng.range(1, max_ops);
      let mut ops = Vec::new();
      for _ in 0..nops {
        let r = rng.below(100);
        if r < abort_rate {
          ops.push(Json::obj(vec![("k", Json::str("abort"))]));
        } else if r < abort_rate + 10 {
          ops.push(Json::obj(vec![("k", Json::str("yield"))]));
        } else if r < abort_rate + 16 {
          // an idle period: timers inside the scheduler (if any) may fire
          ops.push(Json::obj(vec![("k", Json::str("sleep")), ("ms", Json::Int(*rng.pick(&[5i64, 300, 1500, 4000])))]));
        } else {
          ops.push(gen_post(rng, 0));
        }
      }
      callers.push(Json::Arr(ops));
    }
    Json::obj(vec![
      ("sched", Json::str(if rng.below(100) < 12 { "default" } else { "new_thread" })),
      ("callers", Json::Arr(callers)),
      // fire and forget: every handle of the scheduler is dropped after the last call, without abort
      // (what was posted with no abort pending must still run; the parked worker that is left over is
      // by design - the scheduler has no Drop)
      ("drop_handles", Json::Bool(rng.below(6) == 0)),
    ])
  }

  fn exec(&self, w: &Json, cfg: RunCfg) -> RunOut {
    // ---- interpret
    let use_default = match w.s("sched").as_str() {
      "default" => true,
      "new_thread" => false,
      _ => return RunOut::invalid(),
    };
    let mut callers: Vec<Vec<Op>> = Vec::new();
    for c in w.a("callers") {
      let mut ops = Vec::new();
      for o in c.as_arr().cloned().unwrap_or_default() {
        match op_from_json(&o) {
          Some(op) => ops.push(op),
          None => return RunOut::invalid(),
        }
      }
      callers.push(ops);
    }
    if callers.is_empty() || callers.len() > 4 {
      return RunOut::invalid();
    }
    let mut ids = Vec::new();
    for c in &callers {
      for o in c {
        collect_ids(o, &mut ids);
      }
    }
    let mut sorted = ids.clone();
    sorted.sort();
    sorted.dedup();
    if sorted.len() != ids.len() {
      return RunOut::invalid();
    }
    let drop_handles = w.get("drop_handles").is_some() && w.b("drop_handles") && !use_default;
    // ---- run
    let l: Log = Arc::new(Mutex::new(Vec::new()));
    let l_main = l.clone();
    let worker_cell: Arc<Mutex<Option<usize>>> = Arc::new(Mutex::new(None));
    let wc = worker_cell.clone();
    let res = rt::run(cfg, move || {
      let l = l_main;
      let sched = if use_default { Sched::Def(DefaultScheduler::new()) } else { Sched::New(NewThreadScheduler::new()) };
      let worker = rt::tasks().iter().find(|t| t.origin == Origin::Library).map(|t| t.id);
      *wc.lock().unwrap() = worker;
      let _ = worker; // may be None: a scheduler is free to start its worker lazily
      let mut hs = Vec::new();
      for (i, ops) in callers.into_iter().enumerate() {
        let (s2, l2) = (sched.clone(), l.clone());
        hs.push(rt::spawn_harness(&format!("caller{}", i), move || {
          for op in &ops {
            do_op(&s2, &l2, op, worker, false);
          }
        }));
      }
      for h in hs {
        let _ = h.join();
      }
      let mut sched = Some(sched);
      if drop_handles {
        sched = None;
      }
      // every thread the scheduler itself started counts as "the worker thread(s)"
      let summary = |t: &[rt::TaskInfo]| -> (bool, u64) {
        let libs: Vec<&rt::TaskInfo> = t.iter().filter(|x| x.origin == Origin::Library).collect();
        (libs.iter().all(|x| x.finished), libs.iter().map(|x| x.steps).sum())
      };
      let t = rt::quiesce();
      let (fin, st) = summary(&t);
      log(&l, Ev::Quiesce { n: 1, worker_finished: fin, worker_steps: st });
      // clean stop so that a legitimately parked worker does not outlive the run
      if let Some(sched) = &sched {
        sched.abort();
        let t = rt::quiesce();
        let (fin, st) = summary(&t);
        log(&l, Ev::Quiesce { n: 2, worker_finished: fin, worker_steps: st });
      }
    });
    let worker = *worker_cell.lock().unwrap();
    let mut evs = l.lock().unwrap().clone();
    evs.sort_by_key(|e| e.0);
    let history: Vec<String> = evs.iter().map(|(s, e)| format!("{:>4} {:?}", s, e)).collect();
    let mut fp = 0u64;
    for (_, e) in &evs {
      let k = match e {
        Ev::PostInv { id, .. } => 10 + *id as u64 * 16,
        Ev::PostRet { id } => 11 + *id as u64 * 16,
        Ev::AbortInv { .. } => 2,
        Ev::AbortRet { .. } => 3,
        Ev::Start { id, .. } => 12 + *id as u64 * 16,
        Ev::End { id, .. } => 13 + *id as u64 * 16,
        Ev::Quiesce { n, .. } => 4 + *n as u64,
      };
      fp = fp.wrapping_mul(0x100000001B3).wrapping_add(k);
    }
    let violations = check(&evs, &res, use_default, worker, drop_handles);
    let mut reach = Vec::new();
    let any_abort = evs.iter().any(|(_, e)| matches!(e, Ev::AbortInv { .. }));
    reach.push(("c08-history-with-abort", any_abort as u64));
    reach.push(("c08-abort-from-inside-task", evs.iter().any(|(_, e)| matches!(e, Ev::AbortInv { by } if Some(*by) == worker)) as u64));
    reach.push(("c08-post-from-inside-task", evs.iter().any(|(_, e)| matches!(e, Ev::PostInv { inside: true, .. })) as u64));
    RunOut { res, violations, fingerprint: fp, invalid: false, reach, history }
  }
}

fn check(evs: &[(u64, Ev)], res: &rt::RunResult, use_default: bool, worker: Option<usize>, drop_handles: bool) -> Vec<Violation> {
  let blame = if use_default { "default_scheduler" } else { "new_thread_scheduler" };
  let mut v = Vec::new();
  // with every handle dropped and no abort, the parked worker that is left over is by design
  let tolerated_leak = drop_handles && matches!(res.outcome, rt::Outcome::Leak { .. });
  if let Some(o) = outcome_violation(res, blame).filter(|_| !tolerated_leak) {
    // a Leak here means the worker survived even the final abort
    v.push(o);
    return v;
  }
  use std::collections::BTreeMap;
  let mut inv: BTreeMap<i64, (u64, usize, bool)> = BTreeMap::new();
  let mut ret: BTreeMap<i64, u64> = BTreeMap::new();
  let mut starts: BTreeMap<i64, Vec<(u64, usize)>> = BTreeMap::new();
  let mut ends: BTreeMap<i64, (u64, u64)> = BTreeMap::new();
  let mut aborts: Vec<(u64, Option<(u64, u64)>, usize)> = Vec::new();
  let mut q: BTreeMap<u8, (u64, bool, u64)> = BTreeMap::new();
  for (s, e) in evs {
    match e {
      Ev::PostInv { id, by, inside } => {
        inv.insert(*id, (*s, *by, *inside));
      }
      Ev::PostRet { id } => {
        ret.insert(*id, *s);
      }
      Ev::Start { id, runner } => starts.entry(*id).or_default().push((*s, *runner)),
      Ev::End { id, worker_steps } => {
        ends.insert(*id, (*s, *worker_steps));
      }
      Ev::AbortInv { by } => aborts.push((*s, None, *by)),
      Ev::AbortRet { by, worker_steps } => {
        if let Some(a) = aborts.iter_mut().rev().find(|a| a.2 == *by && a.1.is_none()) {
          a.1 = Some((*s, *worker_steps));
        }
      }
      Ev::Quiesce { n, worker_finished, worker_steps } => {
        q.insert(*n, (*s, *worker_finished, *worker_steps));
      }
    }
  }
  // at most once
  for (id, st) in &starts {
    if st.len() > 1 {
      v.push(Violation::new("task-ran-twice", blame, format!("task {} started {} times", id, st.len())));
    }
  }
  if use_default {
    for (id, (i, by, _)) in &inv {
      let st = starts.get(id).and_then(|s| s.first());
      let en = ends.get(id);
      let r = ret.get(id);
      match (st, en, r) {
        (Some((s, runner)), Some((e, _)), Some(r)) if i < s && s < e && e < r && runner == by => {}
        _ => v.push(Violation::new(
          "default-scheduler-not-synchronous",
          blame,
          format!("task {} posted by task {}: invoke {} start {:?} end {:?} return {:?}", id, by, i, st, en, r),
        )),
      }
    }
    return v;
  }
  // one runner thread, started by the scheduler, distinct from the posters
  let library: Vec<usize> = res.tasks.iter().filter(|t| t.origin == Origin::Library).map(|t| t.id).collect();
  let runners: std::collections::BTreeSet<usize> = starts.values().flat_map(|s| s.iter().map(|x| x.1)).collect();
  if runners.len() > 1 {
    v.push(Violation::new("several-worker-threads", blame, format!("tasks of one scheduler ran on {} different threads: {:?}", runners.len(), runners)));
  }
  let _ = worker;
  for (id, st) in &starts {
    for (_, runner) in st {
      let poster = inv.get(id).map(|x| (x.1, x.2));
      if !library.contains(runner) {
        v.push(Violation::new("wrong-thread", blame, format!("task {} ran on task {} which is not a thread of the scheduler (its threads: {:?})", id, runner, library)));
      } else if let Some((p, inside)) = poster {
        if p == *runner && !inside {
          v.push(Violation::new("wrong-thread", blame, format!("task {} ran on its poster's thread {}", id, p)));
        }
      }
    }
  }
  // one at a time
  let mut iv: Vec<(u64, u64, i64)> = Vec::new();
  for (id, st) in &starts {
    if let (Some((s, _)), Some((e, _))) = (st.first(), ends.get(id)) {
      iv.push((*s, *e, *id));
    }
  }
  iv.sort();
  for w in iv.windows(2) {
    if w[0].1 > w[1].0 {
      v.push(Violation::new("tasks-overlap", blame, format!("task {} [{}..{}] overlaps task {} [{}..{}]", w[0].2, w[0].0, w[0].1, w[1].2, w[1].0, w[1].1)));
    }
  }
  // FIFO in real-time order of post calls
  for (a, ra) in &ret {
    for (b, (ib, _, _)) in &inv {
      if a != b && ra < ib {
        if let (Some(sa), Some(sb)) = (starts.get(a).and_then(|x| x.first()), starts.get(b).and_then(|x| x.first())) {
          if sa.0 > sb.0 {
            v.push(Violation::new(
              "fifo-order",
              blame,
              format!("post({}) returned at {} before post({}) was invoked at {}, but {} started at {} after {} at {}", a, ra, b, ib, a, sa.0, b, sb.0),
            ));
          }
        }
      }
    }
  }
  let first_abort_ret = aborts.iter().filter_map(|a| a.1).map(|x| x.0).min();
  let q1 = q.get(&1).copied();
  let q2 = q.get(&2).copied();
  match first_abort_ret {
    None => {
      // no abort: nothing may be lost
      if let Some((qs, fin, _)) = q1 {
        for (id, _) in &ret {
          let ok = starts.get(id).and_then(|s| s.first()).map_or(false, |s| s.0 < qs);
          if !ok {
            v.push(Violation::new("posted-task-never-ran", blame, format!("task {} was posted, no abort was issued, yet it had not run at quiescence (lost wake-up)", id)));
          }
        }
        if fin && !library.is_empty() {
          v.push(Violation::new("worker-exited-without-abort", blame, "worker thread finished although abort was never called".into()));
        }
      }
    }
    Some(a_ret) => {
      let a = aborts.iter().filter(|x| x.1.map(|r| r.0) == Some(a_ret)).next().unwrap();
      let a_steps = a.1.unwrap().1;
      let after: Vec<(i64, u64)> = starts.iter().filter_map(|(id, s)| s.first().map(|s| (*id, s.0))).filter(|(_, s)| *s > a_ret).collect();
      let in_progress = iv.iter().find(|(s, e, _)| *s < a_ret && a_ret < *e);
      if after.len() > 1 || (in_progress.is_some() && !after.is_empty()) {
        v.push(Violation::new(
          "task-taken-after-abort",
          blame,
          format!("abort returned at {}; tasks started afterwards: {:?}; task in progress at that instant: {:?}", a_ret, after, in_progress.map(|x| x.2)),
        ));
      }
      for (id, (i, _, _)) in &inv {
        if *i > a_ret && starts.contains_key(id) {
          v.push(Violation::new("task-posted-after-abort-ran", blame, format!("task {} was posted at {} after abort returned at {} and still ran", id, i, a_ret)));
        }
      }
      if let Some((_, fin, final_steps)) = q1 {
        if !fin {
          v.push(Violation::new("worker-not-terminated-after-abort", blame, "worker thread still alive at quiescence after abort returned".into()));
        } else {
          // bounded number of own steps after the later of (abort returned, end of the last task)
          let mut base = a_steps;
          for (_, (es, st)) in &ends {
            if *es > a_ret {
              base = base.max(*st);
            }
          }
          let extra = final_steps.saturating_sub(base);
          if extra > 16 {
            v.push(Violation::new("worker-lingers-after-abort", blame, format!("worker performed {} own steps after abort returned / the task in progress ended (bound 16)", extra)));
          }
        }
      }
    }
  }
  if let Some((_, fin, _)) = q2 {
    if !fin {
      v.push(Violation::new("worker-not-terminated-after-abort", blame, "worker thread still alive after the final abort".into()));
    }
  }
  v
}

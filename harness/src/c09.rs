//! C09 - observe_on / subscribe_on hand events to the scheduler: none lost, none reordered
//! (DESIGN.md 5.9).

use crate::common::*;
use crate::json::Json;
use crate::rec::*;
use crate::val::*;
use another_rxrust::prelude::*;
use rxsim_rt as rt;
use rxsim_rt::prng::Rng;
use rxsim_rt::{Origin, RunCfg};
use std::sync::{Arc, Mutex};

pub struct C09;

const SHAPES: &[&str] = &["oo", "oo", "so", "oo,oo", "so,so", "so,oo", "oo,so", "m,oo", "oo,m", "m,so,m", "m,oo,m,oo"];

impl Family for C09 {
  fn name(&self) -> &'static str {
    "c09-observe-subscribe-on"
  }
  fn threaded(&self) -> bool {
    true
  }
  fn gen(&self, rng: &mut Rng, tier: Tier) -> Json {
    let n = rng.below(if tier == Tier::Quick { 5 } else { 7 });
    let mut script: Vec<Step> = (0..n).map(|i| Step::N(10 + i as i64)).collect();
    match rng.below(6) {
      0 => script.push(Step::E(7)),
      1 => {}
      _ => script.push(Step::C),
    }
    // "two-threads": two emitter threads merged in front of the pipeline (their first events may
    // reach the scheduler at the same instant)
    // "subject-backlog" (rare, long): the emitter runs more than a thousand events ahead of a
    // subscriber that is stuck in its first callback until the emitter is done
    let source = if rng.below(600) == 0 { "subject-backlog" } else { *rng.pick(&["cold", "threaded", "threaded-checking", "threaded", "subject", "two-threads"]) };
    let shape = if source == "subject-backlog" { "oo" } else if source == "subject" || source == "two-threads" { *rng.pick(&["oo", "oo,oo", "m,oo", "oo,m", "m,oo,m,oo"]) } else { *rng.pick(SHAPES) };
    Json::obj(vec![
      ("script", script_to_json(&script)),
      // "subject": a real Subject fed by the caller; the subscriber's callback of item `reenter_at`
      // feeds the same Subject again from the worker thread (one more item, or the terminal)
      ("source", Json::str(source)),
      ("reenter_at", Json::Int(rng.below(3) as i64)),
      ("reenter_do", Json::str(*rng.pick(&["emit", "emit", "complete"]))),
      ("shape", Json::str(shape)),
      ("unsub_after_probes", Json::Int(if rng.below(3) == 0 { rng.below(12) as i64 } else { -1 })),
      ("cb_probes", Json::Int(rng.below(3) as i64)),
      ("resubscribe", Json::Bool(rng.below(4) == 0)),
      // virtual-time pauses of a threaded source before each step (an idle scheduler must not lose events)
      ("gaps_ms", Json::Arr((0..script.len()).map(|_| Json::Int(if rng.below(5) == 0 { *rng.pick(&[50i64, 1200, 2500]) } else { 0 })).collect())),
    ])
  }
  fn knobs(&self, rng: &mut Rng, w: &Json, _tier: Tier) -> Json {
    let mut k = default_knobs(rng, true);
    if w.s("source") == "subject-backlog" {
      if let Json::Obj(m) = &mut k {
        m.insert("step_budget".into(), Json::Int(400_000));
        m.insert("spurious_permille".into(), Json::Int(0));
      }
    }
    k
  }
  fn exec(&self, w: &Json, cfg: RunCfg) -> RunOut {
    let script = match w.get("script").and_then(script_from_json) {
      Some(s) => s,
      None => return RunOut::invalid(),
    };
    // well-formed scripts only: items, then at most one terminal at the end
    let nterm = script.iter().filter(|s| !matches!(s, Step::N(_))).count();
    if nterm > 1 || (nterm == 1 && matches!(script.last(), Some(Step::N(_)))) || script.len() > 12 {
      return RunOut::invalid();
    }
    let mut items = std::collections::BTreeSet::new();
    for s in &script {
      if let Step::N(i) = s {
        if !items.insert(*i) {
          return RunOut::invalid();
        }
      }
    }
    let shape: Vec<String> = w.s("shape").split(',').map(|s| s.to_string()).collect();
    if shape.is_empty() || shape.len() > 6 || !shape.iter().all(|s| s == "oo" || s == "so" || s == "m") || !shape.iter().any(|s| s != "m") {
      return RunOut::invalid();
    }
    let source_mode = w.s("source");
    if !["cold", "threaded", "threaded-checking", "subject", "two-threads", "subject-backlog"].contains(&source_mode.as_str()) {
      return RunOut::invalid();
    }
    if source_mode == "two-threads" {
      return exec_two_threads(w, cfg, &script, &shape);
    }
    if source_mode == "subject-backlog" {
      return exec_backlog(cfg, &shape);
    }
    if source_mode == "subject" {
      return exec_subject(w, cfg, &script, &shape);
    }
    let unsub_after = w.i("unsub_after_probes");
    let gaps_ns: Vec<u64> = w.a("gaps_ms").iter().map(|x| x.as_i64().unwrap_or(0).clamp(0, 10_000) as u64 * 1_000_000).collect();
    let rec = Recorder::with_probes(w.i("cb_probes").clamp(0, 3) as u32);
    let rec_b = Recorder::with_probes(w.i("cb_probes").clamp(0, 3) as u32);
    let resub = w.b("resubscribe");
    let rec_b2 = rec_b.clone();
    let src_log = Arc::new(Mutex::new(SrcLog::default()));
    let u_stamp: Arc<Mutex<Option<u64>>> = Arc::new(Mutex::new(None));
    let inner_workers: Arc<Mutex<Vec<Vec<usize>>>> = Arc::new(Mutex::new(Vec::new()));
    let inner_workers2 = inner_workers.clone();
    let (rec2, sl, us, sc, shape2, sm) = (rec.clone(), src_log.clone(), u_stamp.clone(), script.clone(), shape.clone(), source_mode.clone());
    let res = rt::run(cfg, move || {
      let handles = Arc::new(Mutex::new(Vec::new()));
      let mut o = match sm.as_str() {
        "cold" => cold_source(vec![sc], sl, None, false),
        "threaded" => threaded_source("source", sc, sl, false, gaps_ns.clone(), handles.clone()),
        _ => threaded_source("source", sc, sl, true, gaps_ns.clone(), handles.clone()),
      };
      let mut first_so = true;
      for st in &shape2 {
        o = match st.as_str() {
          "oo" => o.observe_on(schedulers::new_thread_scheduler()),
          "so" if first_so => {
            // the subscribe_on next to the source: its scheduler's worker is the thread the source
            // must be subscribed on (the worker is the library task that appears while the
            // scheduler is being built)
            first_so = false;
            let iw = inner_workers2.clone();
            o.subscribe_on(move || {
              let before: std::collections::BTreeSet<usize> = rt::tasks().iter().filter(|t| t.origin == Origin::Library).map(|t| t.id).collect();
              let s = schedulers::new_thread_scheduler()();
              let new: Vec<usize> = rt::tasks().iter().filter(|t| t.origin == Origin::Library && !before.contains(&t.id)).map(|t| t.id).collect();
              iw.lock().unwrap().push(new);
              s
            })
          }
          "so" => o.subscribe_on(schedulers::new_thread_scheduler()),
          _ => o.map(|v: Val| Val::Int(v.int() + 100)),
        };
      }
      let sub = rec2.subscribe(&o);
      let mut unsub_h = None;
      if unsub_after >= 0 {
        let sub2 = sub.clone();
        let us2 = us.clone();
        unsub_h = Some(rt::spawn_harness("unsubscriber", move || {
          for _ in 0..unsub_after {
            rt::probe("c09-unsubscriber-wait");
          }
          sub2.unsubscribe();
          *us2.lock().unwrap() = Some(rt::seq());
        }));
      }
      if let Some(h) = unsub_h {
        let _ = h.join();
      }
      rt::quiesce();
      let hs: Vec<_> = std::mem::take(&mut *handles.lock().unwrap());
      for h in hs {
        let _ = h.join();
      }
      rt::quiesce();
      if resub {
        // a second, later subscription of the very same observable value must work alike
        let _sub_b = rec_b2.subscribe(&o);
        rt::quiesce();
        let hs: Vec<_> = std::mem::take(&mut *handles.lock().unwrap());
        for h in hs {
          let _ = h.join();
        }
        rt::quiesce();
      }
    });
    // ---- oracle
    let blame = if shape.iter().any(|s| s == "oo") && shape.iter().any(|s| s == "so") {
      "observe_on+subscribe_on"
    } else if shape.iter().any(|s| s == "oo") {
      "observe_on"
    } else {
      "subscribe_on"
    };
    let n_maps = shape.iter().filter(|s| *s == "m").count() as i64;
    let evs = rec.events();
    let emits = src_log.lock().unwrap().emits.clone();
    let subs = src_log.lock().unwrap().subscriptions.clone();
    let u = *u_stamp.lock().unwrap();
    let mut v = Vec::new();
    let mut history: Vec<String> = Vec::new();
    for e in &emits {
      history.push(format!("{:>4}..{:<4} t{} source emits {}", e.seq_start, e.seq_end, e.task, e.step.show()));
    }
    for r in &evs {
      history.push(format!("{:>4}..{:<4} t{} subscriber gets {}", r.seq_in, r.seq_out, r.task, r.ev.show()));
    }
    for r in &rec_b.events() {
      history.push(format!("{:>4}..{:<4} t{} 2nd subscriber gets {}", r.seq_in, r.seq_out, r.task, r.ev.show()));
    }
    if let Some(u) = u {
      history.push(format!("{:>4}       unsubscribe returned", u));
    }
    history.sort();
    let library_tasks: Vec<usize> = res.tasks.iter().filter(|t| t.origin == Origin::Library).map(|t| t.id).collect();
    match &res.outcome {
      rt::Outcome::Ok | rt::Outcome::Leak { .. } => {}
      _ => v.push(outcome_violation(&res, blame).unwrap()),
    }
    if v.is_empty() {
      let expected: Vec<Ev> = script
        .iter()
        .map(|s| match s {
          Step::N(i) => Ev::Next(Val::Int(*i + 100 * n_maps)),
          Step::E(i) => Ev::Error(*i),
          Step::C => Ev::Complete,
        })
        .collect();
      let got: Vec<Ev> = evs.iter().map(|r| r.ev.clone()).collect();
      let show = |x: &[Ev]| x.iter().map(|e| e.show()).collect::<Vec<_>>().join(" ");
      if u.is_none() {
        if got != expected {
          let class = if got.len() < expected.len() && expected.starts_with(&got) { "events-lost" } else { "events-differ" };
          v.push(Violation::new(class, blame, format!("source emitted [{}], subscriber received [{}]", show(&expected), show(&got))));
        }
      } else {
        if !expected.starts_with(&got) {
          v.push(Violation::new("events-differ", blame, format!("source emitted [{}], subscriber received [{}] (not a prefix)", show(&expected), show(&got))));
        }
        // nothing whose emission started after unsubscribe returned
        let u = u.unwrap();
        for r in &evs {
          let src_step = match &r.ev {
            Ev::Next(x) => Step::N(x.int() - 100 * n_maps),
            Ev::Error(i) => Step::E(*i),
            Ev::Complete => Step::C,
          };
          if let Some(e) = emits.iter().find(|e| e.step == src_step && e.sub == 0) {
            if e.seq_start > u {
              v.push(Violation::new("delivered-after-unsubscribe", blame, format!("{} was delivered although its emission started at {} after unsubscribe returned at {}", r.ev.show(), e.seq_start, u)));
            }
          }
        }
      }
      if resub {
        let got_b: Vec<Ev> = rec_b.events().iter().map(|r| r.ev.clone()).collect();
        if got_b != expected {
          let class = if got_b.len() < expected.len() && expected.starts_with(&got_b) { "events-lost" } else { "events-differ" };
          v.push(Violation::new(class, blame, format!("second subscription of the same observable: source emitted [{}], subscriber received [{}]", show(&expected), show(&got_b))));
        }
      }
      // one callback at a time
      let mut iv: Vec<(u64, u64)> = evs.iter().map(|r| (r.seq_in, r.seq_out)).collect();
      iv.sort();
      for w2 in iv.windows(2) {
        if w2[0].1 > w2[1].0 {
          v.push(Violation::new("callbacks-overlap", blame, format!("callback [{}..{}] overlaps callback [{}..{}]", w2[0].0, w2[0].1, w2[1].0, w2[1].1)));
        }
      }
      // thread affinity
      let last_sched = shape.iter().rev().find(|s| *s != "m").map(|s| s.as_str()).unwrap_or("oo");
      let emitter_tasks: std::collections::BTreeSet<usize> = emits.iter().map(|e| e.task).collect();
      let cb_tasks: std::collections::BTreeSet<usize> = evs.iter().map(|r| r.task).collect();
      if last_sched == "oo" {
        if cb_tasks.len() > 1 {
          v.push(Violation::new("wrong-thread", blame, format!("callbacks ran on several tasks {:?}", cb_tasks)));
        }
        for t in &cb_tasks {
          if !library_tasks.contains(t) || emitter_tasks.contains(t) {
            v.push(Violation::new("wrong-thread", blame, format!("callback ran on task {} (emitter tasks {:?}, scheduler workers {:?})", t, emitter_tasks, library_tasks)));
          }
        }
      }
      if shape.iter().any(|s| s == "so") {
        // the source's subscribe function must have run on a scheduler thread
        for (_, t) in &subs {
          if !library_tasks.contains(t) {
            v.push(Violation::new("wrong-thread", blame, format!("the source was subscribed on task {} which is not a scheduler worker {:?}", t, library_tasks)));
          }
        }
        if u.is_none() && subs.is_empty() {
          v.push(Violation::new("events-lost", blame, "subscribe_on never subscribed the source".into()));
        }
        // ... namely on the thread of the scheduler that the subscribe_on next to the source was
        // given (several subscribe_on stacked: not on an outer one's worker)
        let iw = inner_workers.lock().unwrap().clone();
        if iw.len() < subs.len() {
          v.push(Violation::new("wrong-thread", blame, format!("the source was subscribed {} time(s), but the subscribe_on next to it built its scheduler only {} time(s)", subs.len(), iw.len())));
        } else {
          let own: Vec<usize> = iw.iter().flatten().copied().collect();
          for (_, t) in &subs {
            if iw.iter().all(|x| x.len() == 1) && !own.contains(t) {
              v.push(Violation::new("wrong-thread", blame, format!("the source was subscribed on task {}, which is not the worker of the scheduler given to the subscribe_on next to it ({:?})", t, own)));
            }
          }
        }
      }
    }
    let mut fp = 0u64;
    for h in &history {
      fp = fp.wrapping_mul(0x100000001B3) ^ fnv(h.split_whitespace().skip(1).collect::<Vec<_>>().join(" ").as_str());
    }
    let reach = vec![
      ("c09-unsubscribed-mid-stream", (u.is_some() && evs.len() < script.len() && !evs.is_empty()) as u64),
      ("c09-unsubscribed-before-first", (u.is_some() && evs.is_empty()) as u64),
      ("c09-all-delivered", (evs.len() == script.len()) as u64),
    ];
    RunOut { res, violations: v, fingerprint: fp, invalid: false, reach, history }
  }
}


/// Subject source, re-entrant subscriber (see `gen`). Oracle: the caller's items arrive in the
/// caller's order, the item fed from inside the callback arrives once and after the item whose
/// callback fed it, everything pushed completely before a (re-entrant) terminal call started is
/// delivered before the terminal, callbacks never overlap and all run on one worker.
fn exec_subject(w: &Json, cfg: RunCfg, script: &[Step], shape: &[String]) -> RunOut {
  const EXTRA: i64 = 99;
  let reenter_at = w.i("reenter_at");
  let reenter_do = w.s("reenter_do");
  if reenter_at < 0 || reenter_at > 12 || !["emit", "complete"].contains(&reenter_do.as_str()) {
    return RunOut::invalid();
  }
  // the last stage must be observe_on (otherwise callbacks run on the emitting thread by definition)
  if shape.iter().rev().find(|s| *s != "m").map(|s| s.as_str()) != Some("oo") || shape.iter().any(|s| s == "so") {
    return RunOut::invalid();
  }
  let n_maps = shape.iter().filter(|s| *s == "m").count() as i64;
  let mut rec = Recorder::with_probes(w.i("cb_probes").clamp(0, 3) as u32);
  // (item or -1 for the terminal, seq before the call, seq after it returned, task)
  let pushes: Arc<Mutex<Vec<(i64, u64, u64, usize)>>> = Arc::new(Mutex::new(Vec::new()));
  let sbj_cell: Arc<Mutex<Option<subjects::Subject<'static, Val>>>> = Arc::new(Mutex::new(None));
  {
    let (sc, pu, rd) = (sbj_cell.clone(), pushes.clone(), reenter_do.clone());
    let seen = Arc::new(Mutex::new(0i64));
    rec.hook = Some(Arc::new(move |ev: &Ev| {
      if !matches!(ev, Ev::Next(_)) {
        return;
      }
      let k = {
        let mut s = seen.lock().unwrap();
        *s += 1;
        *s - 1
      };
      if k == reenter_at {
        let sb = sc.lock().unwrap().clone();
        if let Some(sb) = sb {
          let a = rt::seq();
          if rd == "emit" {
            sb.next(Val::Int(EXTRA));
          } else {
            sb.complete();
          }
          let b = rt::seq();
          pu.lock().unwrap().push((if rd == "emit" { EXTRA } else { -1 }, a, b, rt::task_id().unwrap_or(0)));
        }
      }
    }));
  }
  let (rec2, sc2, pu2, shape2, script2) = (rec.clone(), sbj_cell.clone(), pushes.clone(), shape.to_vec(), script.to_vec());
  let res = rt::run(cfg, move || {
    let sbj = subjects::Subject::<Val>::new();
    *sc2.lock().unwrap() = Some(sbj.clone());
    let mut o = sbj.observable();
    for st in &shape2 {
      o = match st.as_str() {
        "oo" => o.observe_on(schedulers::new_thread_scheduler()),
        _ => o.map(|v: Val| Val::Int(v.int() + 100)),
      };
    }
    let sub = rec2.subscribe(&o);
    for st in &script2 {
      let a = rt::seq();
      match st {
        Step::N(x) => sbj.next(Val::Int(*x)),
        Step::E(e) => sbj.error(mk_err(*e)),
        Step::C => sbj.complete(),
      }
      let b = rt::seq();
      pu2.lock().unwrap().push((if let Step::N(x) = st { *x } else { -1 }, a, b, 0));
    }
    rt::quiesce();
    sub.unsubscribe();
    *sc2.lock().unwrap() = None;
    rt::quiesce();
  });
  let blame = "observe_on";
  let evs = rec.events();
  let pushes = pushes.lock().unwrap().clone();
  let mut v = Vec::new();
  let mut history: Vec<String> = Vec::new();
  for (x, a, b, t) in &pushes {
    history.push(format!("{:>4}..{:<4} t{} pushes {}", a, b, t, if *x < 0 { "terminal".to_string() } else { format!("n{}", x) }));
  }
  for r in &evs {
    history.push(format!("{:>4}..{:<4} t{} subscriber gets {}", r.seq_in, r.seq_out, r.task, r.ev.show()));
  }
  history.sort();
  let library_tasks: Vec<usize> = res.tasks.iter().filter(|t| t.origin == Origin::Library).map(|t| t.id).collect();
  match &res.outcome {
    rt::Outcome::Ok | rt::Outcome::Leak { .. } => {}
    _ => v.push(outcome_violation(&res, blame).unwrap()),
  }
  if v.is_empty() {
    let shown = evs.iter().map(|r| r.ev.show()).collect::<Vec<_>>().join(" ");
    let got_items: Vec<i64> = evs.iter().filter_map(|r| if let Ev::Next(x) = &r.ev { Some(x.int() - 100 * n_maps) } else { None }).collect();
    // the first terminal call (by its start stamp) is the one that counts
    let first_term = pushes.iter().filter(|p| p.0 < 0).map(|p| (p.1, p.2)).min();
    let mine: Vec<i64> = got_items.iter().filter(|x| **x != EXTRA).copied().collect();
    let main_items: Vec<i64> = script.iter().filter_map(|s| if let Step::N(x) = s { Some(*x) } else { None }).collect();
    // the caller's items: in the caller's order, each at most once
    let mut it = main_items.iter();
    if !mine.iter().all(|g| it.any(|x| x == g)) {
      v.push(Violation::new("events-differ", blame, format!("the caller pushed {:?}; the subscriber received [{}] (order changed or an item twice)", main_items, shown)));
    }
    for (x, a, b, _) in &pushes {
      if *x < 0 {
        continue;
      }
      let delivered = got_items.iter().filter(|g| **g == *x).count();
      let must = first_term.map_or(true, |(ts, _)| *b < ts);
      let must_not = first_term.map_or(false, |(_, te)| *a > te);
      if delivered > 1 || (must && delivered == 0) || (must_not && delivered > 0) {
        let class = if delivered == 0 { "events-lost" } else { "events-differ" };
        v.push(Violation::new(class, blame, format!("item {} was pushed during {}..{} (first terminal call: {:?}) and delivered {} time(s): [{}]", x, a, b, first_term, delivered, shown)));
      }
    }
    // the item fed from inside a callback comes after the item whose callback fed it
    if let (Some(pe), Some(pa)) = (got_items.iter().position(|x| *x == EXTRA), got_items.iter().position(|x| *x != EXTRA)) {
      let feeder = got_items.iter().filter(|x| **x != EXTRA).nth(reenter_at as usize).and_then(|f| got_items.iter().position(|x| x == f));
      let _ = pa;
      if feeder.map_or(false, |f| pe < f) {
        v.push(Violation::new("events-differ", blame, format!("the item fed from inside a callback was delivered before the item whose callback fed it: [{}]", shown)));
      }
    }
    // terminal: exactly one if a terminal call happened, and it is the last event
    let terms = evs.iter().filter(|r| r.ev.is_terminal()).count();
    if first_term.is_some() && (terms != 1 || !evs.last().map_or(false, |r| r.ev.is_terminal())) {
      v.push(Violation::new(if terms == 0 { "events-lost" } else { "events-differ" }, blame, format!("a terminal was signalled; the subscriber received [{}]", shown)));
    }
    if first_term.is_none() && terms > 0 {
      v.push(Violation::new("events-differ", blame, format!("no terminal was signalled; the subscriber received [{}]", shown)));
    }
    // one callback at a time (a nested callback counts as two at once)
    let mut iv: Vec<(u64, u64)> = evs.iter().map(|r| (r.seq_in, r.seq_out)).collect();
    iv.sort();
    for w2 in iv.windows(2) {
      if w2[0].1 > w2[1].0 {
        v.push(Violation::new("callbacks-overlap", blame, format!("callback [{}..{}] overlaps callback [{}..{}]: [{}]", w2[0].0, w2[0].1, w2[1].0, w2[1].1, shown)));
      }
    }
    let cb_tasks: std::collections::BTreeSet<usize> = evs.iter().map(|r| r.task).collect();
    if cb_tasks.len() > 1 || cb_tasks.iter().any(|t| !library_tasks.contains(t)) {
      v.push(Violation::new("wrong-thread", blame, format!("callbacks ran on tasks {:?} (scheduler workers {:?})", cb_tasks, library_tasks)));
    }
  }
  let mut fp = 0u64;
  for h in &history {
    fp = fp.wrapping_mul(0x100000001B3) ^ fnv(h.split_whitespace().skip(1).collect::<Vec<_>>().join(" ").as_str());
  }
  let reach = vec![("c09-reentrant-push-happened", pushes.iter().any(|p| p.3 != 0) as u64)];
  RunOut { res, violations: v, fingerprint: fp, invalid: false, reach, history }
}


/// Two emitter threads merged in front of the pipeline. Oracle: every item of both emitters exactly
/// once, each emitter's items in its order, the completion last (both emitters complete), callbacks
/// never overlap and all run on one scheduler worker.
fn exec_two_threads(w: &Json, cfg: RunCfg, script: &[Step], shape: &[String]) -> RunOut {
  if shape.iter().rev().find(|s| *s != "m").map(|s| s.as_str()) != Some("oo") || shape.iter().any(|s| s == "so") {
    return RunOut::invalid();
  }
  let n_maps = shape.iter().filter(|s| *s == "m").count() as i64;
  let items_a: Vec<i64> = script.iter().filter_map(|s| if let Step::N(x) = s { Some(*x) } else { None }).collect();
  let items_b: Vec<i64> = items_a.iter().map(|x| x + 50).collect();
  let mk = |items: &[i64]| -> Vec<Step> {
    let mut s: Vec<Step> = items.iter().map(|x| Step::N(*x)).collect();
    s.push(Step::C);
    s
  };
  let (sa, sb) = (mk(&items_a), mk(&items_b));
  let rec = Recorder::with_probes(w.i("cb_probes").clamp(0, 3) as u32);
  let src_log = Arc::new(Mutex::new(SrcLog::default()));
  let (rec2, sl, shape2) = (rec.clone(), src_log.clone(), shape.to_vec());
  let res = rt::run(cfg, move || {
    let handles = Arc::new(Mutex::new(Vec::new()));
    let a = threaded_source("source-a", sa, sl.clone(), false, vec![], handles.clone());
    let b = threaded_source("source-b", sb, sl.clone(), false, vec![], handles.clone());
    let mut o = a.merge(&[b]);
    for st in &shape2 {
      o = match st.as_str() {
        "oo" => o.observe_on(schedulers::new_thread_scheduler()),
        _ => o.map(|v: Val| Val::Int(v.int() + 100)),
      };
    }
    let _sub = rec2.subscribe(&o);
    rt::quiesce();
    let hs: Vec<_> = std::mem::take(&mut *handles.lock().unwrap());
    for h in hs {
      let _ = h.join();
    }
    rt::quiesce();
  });
  let blame = "observe_on";
  let evs = rec.events();
  let mut v = Vec::new();
  let mut history: Vec<String> = Vec::new();
  for e in src_log.lock().unwrap().emits.iter() {
    history.push(format!("{:>4}..{:<4} t{} source emits {}", e.seq_start, e.seq_end, e.task, e.step.show()));
  }
  for r in &evs {
    history.push(format!("{:>4}..{:<4} t{} subscriber gets {}", r.seq_in, r.seq_out, r.task, r.ev.show()));
  }
  history.sort();
  let library_tasks: Vec<usize> = res.tasks.iter().filter(|t| t.origin == Origin::Library).map(|t| t.id).collect();
  match &res.outcome {
    rt::Outcome::Ok | rt::Outcome::Leak { .. } => {}
    _ => v.push(outcome_violation(&res, blame).unwrap()),
  }
  if v.is_empty() {
    let shown = evs.iter().map(|r| r.ev.show()).collect::<Vec<_>>().join(" ");
    let got: Vec<i64> = evs.iter().filter_map(|r| if let Ev::Next(x) = &r.ev { Some(x.int() - 100 * n_maps) } else { None }).collect();
    for (name, items) in [("a", &items_a), ("b", &items_b)] {
      let mine: Vec<i64> = got.iter().filter(|x| items.contains(x)).copied().collect();
      if mine != **items {
        let class = if mine.len() < items.len() { "events-lost" } else { "events-differ" };
        v.push(Violation::new(class, blame, format!("emitter {} emitted {:?}; of those the subscriber received {:?}: [{}]", name, items, mine, shown)));
      }
    }
    if got.len() != items_a.len() + items_b.len() {
      v.push(Violation::new("events-differ", blame, format!("two emitters emitted {} items in all, the subscriber received {}: [{}]", items_a.len() + items_b.len(), got.len(), shown)));
    }
    let terms = evs.iter().filter(|r| r.ev.is_terminal()).count();
    if terms != 1 || evs.last().map(|r| r.ev.clone()) != Some(Ev::Complete) {
      v.push(Violation::new(if terms == 0 { "events-lost" } else { "events-differ" }, blame, format!("both emitters completed; the subscriber received [{}]", shown)));
    }
    let mut iv: Vec<(u64, u64)> = evs.iter().map(|r| (r.seq_in, r.seq_out)).collect();
    iv.sort();
    for w2 in iv.windows(2) {
      if w2[0].1 > w2[1].0 {
        v.push(Violation::new("callbacks-overlap", blame, format!("callback [{}..{}] overlaps callback [{}..{}]: [{}]", w2[0].0, w2[0].1, w2[1].0, w2[1].1, shown)));
      }
    }
    let cb_tasks: std::collections::BTreeSet<usize> = evs.iter().map(|r| r.task).collect();
    if cb_tasks.len() > 1 || cb_tasks.iter().any(|t| !library_tasks.contains(t)) {
      v.push(Violation::new("wrong-thread", blame, format!("callbacks ran on tasks {:?} (scheduler workers {:?})", cb_tasks, library_tasks)));
    }
  }
  let mut fp = 0u64;
  for h in &history {
    fp = fp.wrapping_mul(0x100000001B3) ^ fnv(h.split_whitespace().skip(1).collect::<Vec<_>>().join(" ").as_str());
  }
  let reach = vec![("c09-two-emitter-threads", 1u64)];
  RunOut { res, violations: v, fingerprint: fp, invalid: false, reach, history }
}


/// A long backlog: the caller pushes BACKLOG items into a Subject behind observe_on while the
/// subscriber is stuck inside its first callback until the caller is done; then everything must
/// arrive in order, followed by the completion. (An emitter that cannot run ahead of a slow
/// subscriber - a bounded queue - ends the run as a deadlock.)
fn exec_backlog(cfg: RunCfg, shape: &[String]) -> RunOut {
  const BACKLOG: i64 = 1100;
  if shape.len() != 1 || shape[0] != "oo" {
    return RunOut::invalid();
  }
  let mut rec = Recorder::new();
  let gate = Arc::new((rt::sync::Mutex::new(false), rt::sync::Condvar::new()));
  {
    let g = gate.clone();
    let first = Arc::new(Mutex::new(true));
    rec.hook = Some(Arc::new(move |ev: &Ev| {
      if matches!(ev, Ev::Next(_)) && std::mem::replace(&mut *first.lock().unwrap(), false) {
        let mut open = g.0.lock().unwrap();
        while !*open {
          open = g.1.wait(open).unwrap();
        }
      }
    }));
  }
  let (rec2, g2) = (rec.clone(), gate.clone());
  let res = rt::run(cfg, move || {
    let sbj = subjects::Subject::<Val>::new();
    let o = sbj.observable().observe_on(schedulers::new_thread_scheduler());
    let _sub = rec2.subscribe(&o);
    for i in 0..BACKLOG {
      sbj.next(Val::Int(i));
    }
    *g2.0.lock().unwrap() = true;
    g2.1.notify_all();
    sbj.complete();
    rt::quiesce();
  });
  let blame = "observe_on";
  let evs = rec.events();
  let mut v = Vec::new();
  let got: Vec<i64> = evs.iter().filter_map(|r| if let Ev::Next(x) = &r.ev { Some(x.int()) } else { None }).collect();
  let history = vec![format!("{} items pushed while the subscriber was stuck in its first callback; delivered {} item(s), last event {:?}", BACKLOG, got.len(), evs.last().map(|r| r.ev.show()))];
  match &res.outcome {
    rt::Outcome::Ok | rt::Outcome::Leak { .. } => {
      let want: Vec<i64> = (0..BACKLOG).collect();
      if got != want || evs.last().map(|r| r.ev.clone()) != Some(Ev::Complete) || evs.iter().filter(|r| r.ev.is_terminal()).count() != 1 {
        v.push(Violation::new(if got.len() < want.len() { "events-lost" } else { "events-differ" }, blame, history[0].clone()));
      }
    }
    _ => v.push(outcome_violation(&res, blame).unwrap()),
  }
  let reach = vec![("c09-long-backlog", 1u64)];
  RunOut { res, violations: v, fingerprint: fnv(&history[0]), invalid: false, reach, history }
}

//! C10 - subjects multicast to exactly the current observers; late joiners get history
//! (DESIGN.md 5.10): generated call histories against a reference state machine.

use crate::common::*;
use crate::json::Json;
use crate::rec::*;
use crate::val::*;
use another_rxrust::prelude::*;
use rxsim_rt as rt;
use rxsim_rt::prng::Rng;
use rxsim_rt::RunCfg;
use std::sync::{Arc, Mutex};

pub struct C10;

#[derive(Clone)]
enum Subj {
  Plain(subjects::Subject<'static, Val>),
  Behavior(subjects::BehaviorSubject<'static, Val>),
  Replay(subjects::ReplaySubject<'static, Val>),
  Async(subjects::AsyncSubject<'static, Val>),
}

impl Subj {
  fn make(kind: &str) -> Option<Subj> {
    Some(match kind {
      "subject" => Subj::Plain(subjects::Subject::new()),
      "behavior" => Subj::Behavior(subjects::BehaviorSubject::new(Val::Int(INITIAL))),
      "replay" => Subj::Replay(subjects::ReplaySubject::new()),
      "async" => Subj::Async(subjects::AsyncSubject::new()),
      _ => return None,
    })
  }
  fn next(&self, v: i64) {
    match self {
      Subj::Plain(x) => x.next(Val::Int(v)),
      Subj::Behavior(x) => x.next(Val::Int(v)),
      Subj::Replay(x) => x.next(Val::Int(v)),
      Subj::Async(x) => x.next(Val::Int(v)),
    }
  }
  fn error(&self, id: i64) {
    match self {
      Subj::Plain(x) => x.error(mk_err(id)),
      Subj::Behavior(x) => x.error(mk_err(id)),
      Subj::Replay(x) => x.error(mk_err(id)),
      Subj::Async(x) => x.error(mk_err(id)),
    }
  }
  fn complete(&self) {
    match self {
      Subj::Plain(x) => x.complete(),
      Subj::Behavior(x) => x.complete(),
      Subj::Replay(x) => x.complete(),
      Subj::Async(x) => x.complete(),
    }
  }
  fn observable(&self) -> Observable<'static, Val> {
    match self {
      Subj::Plain(s) => s.observable(),
      Subj::Behavior(s) => s.observable(),
      Subj::Replay(s) => s.observable(),
      Subj::Async(s) => s.observable(),
    }
  }
  fn count(&self) -> usize {
    match self {
      Subj::Plain(s) => s.verif_observer_count(),
      Subj::Behavior(s) => s.verif_observer_count(),
      Subj::Replay(s) => s.verif_observer_count(),
      Subj::Async(s) => s.verif_observer_count(),
    }
  }
}

const INITIAL: i64 = 9;

#[derive(Clone, Debug, PartialEq)]
enum Op {
  Sub(usize),
  Unsub(usize),
  Next(i64),
  Error,
  Complete,
}

fn op_to_json(o: &Op) -> Json {
  match o {
    Op::Sub(i) => Json::Arr(vec![Json::str("sub"), Json::Int(*i as i64)]),
    Op::Unsub(i) => Json::Arr(vec![Json::str("unsub"), Json::Int(*i as i64)]),
    Op::Next(v) => Json::Arr(vec![Json::str("next"), Json::Int(*v)]),
    Op::Error => Json::Arr(vec![Json::str("error")]),
    Op::Complete => Json::Arr(vec![Json::str("complete")]),
  }
}

fn op_from_json(j: &Json, nobs: usize) -> Option<Op> {
  let a = j.as_arr()?;
  let k = a.first()?.as_str()?;
  let arg = a.get(1).and_then(|x| x.as_i64());
  Some(match k {
    "sub" => Op::Sub(arg.filter(|x| *x >= 0 && (*x as usize) < nobs)? as usize),
    "unsub" => Op::Unsub(arg.filter(|x| *x >= 0 && (*x as usize) < nobs)? as usize),
    "next" => Op::Next(arg.filter(|x| (0..1000).contains(x))?),
    "error" => Op::Error,
    "complete" => Op::Complete,
    _ => return None,
  })
}

/// reference state machine; returns per-observer expected events, the live-set size after each
/// step, and the step index from which only the weak invariants apply (statement silent)
struct Model {
  kind: String,
  live: Vec<bool>,
  ever: Vec<bool>,
  taken: Vec<usize>,
  limit: Vec<Option<usize>>,
  expect: Vec<Vec<Ev>>,
  last: i64,
  items: Vec<i64>,
  terminal: Option<Ev>,
  async_last: Vec<Option<i64>>,
  weak_from: Option<usize>,
}

impl Model {
  fn deliver(&mut self, i: usize, v: i64) {
    if !self.live[i] {
      return;
    }
    self.expect[i].push(Ev::Next(Val::Int(v)));
    self.taken[i] += 1;
    if let Some(l) = self.limit[i] {
      if self.taken[i] >= l {
        // take(k): completes and leaves
        self.expect[i].push(Ev::Complete);
        self.live[i] = false;
      }
    }
  }
  fn terminate(&mut self, i: usize, t: &Ev) {
    if self.live[i] {
      self.expect[i].push(t.clone());
      self.live[i] = false;
    }
  }
  fn step(&mut self, n: usize, op: &Op) {
    let nobs = self.live.len();
    match op {
      Op::Sub(i) => {
        if self.ever[*i] {
          return; // each observer subscribes at most once
        }
        self.ever[*i] = true;
        self.live[*i] = true;
        if self.limit[*i] == Some(0) {
          // take(0) below a subject: completes on the first item it sees; treated like the crate:
          // nothing until an item arrives
        }
        match self.kind.as_str() {
          "behavior" => match self.terminal.clone() {
            Some(t) => self.terminate(*i, &t),
            None => {
              let v = self.last;
              self.deliver(*i, v);
            }
          },
          "replay" => {
            let its = self.items.clone();
            for v in its {
              self.deliver(*i, v);
            }
            if let Some(t) = self.terminal.clone() {
              self.terminate(*i, &t);
            }
          }
          _ => {}
        }
      }
      Op::Unsub(i) => {
        self.live[*i] = false;
      }
      Op::Next(v) => {
        if self.terminal.is_some() && self.kind != "subject" && self.weak_from.is_none() {
          self.weak_from = Some(n);
        }
        self.last = *v;
        self.items.push(*v);
        if self.kind == "async" {
          for i in 0..nobs {
            if self.live[i] {
              self.async_last[i] = Some(*v);
            }
          }
        } else {
          for i in 0..nobs {
            self.deliver(i, *v);
          }
        }
      }
      Op::Error | Op::Complete => {
        let t = if *op == Op::Error { Ev::Error(1) } else { Ev::Complete };
        if self.terminal.is_some() && self.kind != "subject" && self.weak_from.is_none() {
          self.weak_from = Some(n);
        }
        if self.kind == "async" {
          for i in 0..nobs {
            if self.live[i] {
              if t == Ev::Complete {
                if let Some(v) = self.async_last[i] {
                  self.expect[i].push(Ev::Next(Val::Int(v)));
                }
              }
              self.expect[i].push(t.clone());
              self.live[i] = false;
            }
          }
        } else {
          for i in 0..nobs {
            self.terminate(i, &t);
          }
        }
        if self.kind != "subject" && self.terminal.is_none() {
          self.terminal = Some(t);
        }
      }
    }
  }
}

impl Family for C10 {
  fn name(&self) -> &'static str {
    "c10-subject-histories"
  }
  fn threaded(&self) -> bool {
    false
  }
  fn gen(&self, rng: &mut Rng, tier: Tier) -> Json {
    let len = rng.range(2, if tier == Tier::Quick { 8 } else { 12 });
    let nobs = rng.range(1, 3) as usize;
    let mut ops = Vec::new();
    let mut v = 0;
    for _ in 0..len {
      ops.push(match rng.below(12) {
        0..=2 => Op::Sub(rng.below(nobs as u64) as usize),
        3..=4 => Op::Unsub(rng.below(nobs as u64) as usize),
        5..=9 => {
          v += 1;
          Op::Next(10 + (v % 3))
        }
        10 => Op::Error,
        _ => Op::Complete,
      });
    }
    let nested = nobs >= 2 && rng.below(4) == 0;
    if nested {
      // observer 1 is only ever subscribed from inside observer 0's terminal callback
      for o in ops.iter_mut() {
        if *o == Op::Sub(1) {
          *o = Op::Sub(0);
        }
      }
    }
    Json::obj(vec![
      ("subject", Json::str(*rng.pick(&["subject", "behavior", "replay", "async"]))),
      ("observers", Json::Arr((0..nobs).map(|_| Json::str(*rng.pick(&["direct", "direct", "map", "take1", "take2"]))).collect())),
      ("ops", Json::arr(ops.iter(), op_to_json)),
      ("share_observable", Json::Bool(rng.below(2) == 0)),
      // observer `who` subscribes observer `whom` from inside its first terminal callback
      ("nested_subscribe", if nested { Json::Arr(vec![Json::Int(0), Json::Int(1)]) } else { Json::Null }),
    ])
  }
  fn exec(&self, w: &Json, cfg: RunCfg) -> RunOut {
    let kind = w.s("subject");
    let share = w.b("share_observable");
    let nested: Option<(usize, usize)> = match w.get("nested_subscribe") {
      Some(Json::Arr(v)) if v.len() == 2 => match (v[0].as_i64(), v[1].as_i64()) {
        (Some(a), Some(b)) if a >= 0 && b >= 0 && a != b => Some((a as usize, b as usize)),
        _ => return RunOut::invalid(),
      },
      _ => None,
    };
    if Subj::make(&kind).is_none() {
      return RunOut::invalid();
    }
    let okinds: Vec<String> = w.a("observers").iter().filter_map(|x| x.as_str().map(|s| s.to_string())).collect();
    let nobs = okinds.len();
    if nobs == 0 || nobs > 3 || okinds.iter().any(|k| !["direct", "map", "take1", "take2"].contains(&k.as_str())) {
      return RunOut::invalid();
    }
    let mut ops = Vec::new();
    for o in w.a("ops") {
      match op_from_json(&o, nobs) {
        Some(x) => ops.push(x),
        None => return RunOut::invalid(),
      }
    }
    if ops.len() > 16 {
      return RunOut::invalid();
    }
    if let Some((a, b)) = nested {
      // `whom` only ever subscribes from inside `who`'s callback
      if a >= nobs || b >= nobs || ops.iter().any(|o| *o == Op::Sub(b)) {
        return RunOut::invalid();
      }
    }
    // ---- run
    let recs: Vec<Recorder> = (0..nobs).map(|_| Recorder::new()).collect();
    let counts: Arc<Mutex<Vec<usize>>> = Arc::new(Mutex::new(Vec::new()));
    let (recs2, counts2, ops2, kind2, ok2) = (recs.clone(), counts.clone(), ops.clone(), kind.clone(), okinds.clone());
    let res = rt::run(cfg, move || {
      let sbj = Subj::make(&kind2).unwrap();
      let mut subs: Vec<Option<Subscription<'static>>> = vec![None; recs2.len()];
      let mut ever = vec![false; recs2.len()];
      let shared_obs = sbj.observable();
      let get_obs = |s: &Subj| if share { shared_obs.clone() } else { s.observable() };
      let nested_sub: Arc<Mutex<Option<Subscription<'static>>>> = Arc::new(Mutex::new(None));
      let mut recs2 = recs2;
      if let Some((a, b)) = nested {
        let (sbj2, rb, ns, kb) = (sbj.clone(), recs2[b].clone(), nested_sub.clone(), ok2[b].clone());
        let fired = Arc::new(Mutex::new(false));
        recs2[a].hook = Some(Arc::new(move |ev: &Ev| {
          if ev.is_terminal() {
            let mut f = fired.lock().unwrap();
            if !*f {
              *f = true;
              drop(f);
              let o = match kb.as_str() {
                "map" => sbj2.observable().map(|x: Val| x),
                "take1" => sbj2.observable().take(1),
                "take2" => sbj2.observable().take(2),
                _ => sbj2.observable(),
              };
              *ns.lock().unwrap() = Some(rb.subscribe(&o));
            }
          }
        }));
      }
      for op in &ops2 {
        match op {
          Op::Sub(i) => {
            if !ever[*i] {
              ever[*i] = true;
              let o = match ok2[*i].as_str() {
                "map" => get_obs(&sbj).map(|x: Val| x),
                "take1" => get_obs(&sbj).take(1),
                "take2" => get_obs(&sbj).take(2),
                _ => get_obs(&sbj),
              };
              subs[*i] = Some(recs2[*i].subscribe(&o));
            }
          }
          Op::Unsub(i) => {
            if let Some(s) = &subs[*i] {
              s.unsubscribe();
            }
            if nested.map_or(false, |(_, b)| b == *i) {
              let s = nested_sub.lock().unwrap().clone();
              if let Some(s) = s {
                s.unsubscribe();
              }
            }
          }
          Op::Next(v) => sbj.next(*v),
          Op::Error => sbj.error(1),
          Op::Complete => sbj.complete(),
        }
        let c = sbj.count();
        counts2.lock().unwrap().push(c);
      }
    });
    // ---- model
    let mut m = Model {
      kind: kind.clone(),
      live: vec![false; nobs],
      ever: vec![false; nobs],
      taken: vec![0; nobs],
      limit: okinds.iter().map(|k| match k.as_str() {
        "take1" => Some(1),
        "take2" => Some(2),
        _ => None,
      }).collect(),
      expect: vec![Vec::new(); nobs],
      last: INITIAL,
      items: Vec::new(),
      terminal: None,
      async_last: vec![None; nobs],
      weak_from: None,
    };
    let mut live_sizes = Vec::new();
    // expected events per observer as of each step (for the weak cut-off)
    let mut expect_at: Vec<Vec<Vec<Ev>>> = Vec::new();
    let mut nested_done = false;
    for (n, op) in ops.iter().enumerate() {
      m.step(n, op);
      if let Some((a, b)) = nested {
        // the broadcast that delivers a's first terminal is over for everybody else's snapshot,
        // then b is subscribed (it is not part of that broadcast)
        if !nested_done && m.expect[a].iter().any(|e| e.is_terminal()) {
          nested_done = true;
          m.step(n, &Op::Sub(b));
        }
      }
      live_sizes.push(m.live.iter().filter(|x| **x).count());
      expect_at.push(m.expect.clone());
    }
    let blame = match kind.as_str() {
      "subject" => "subject",
      "behavior" => "behavior_subject",
      "replay" => "replay_subject",
      _ => "async_subject",
    };
    let show = |x: &[Ev]| x.iter().map(|e| e.show()).collect::<Vec<_>>().join(" ");
    let mut v = Vec::new();
    let mut history: Vec<String> = vec![format!("{} observers {:?}: {}", kind, okinds, ops.iter().map(|o| format!("{:?}", o)).collect::<Vec<_>>().join(" "))];
    let counts = counts.lock().unwrap().clone();
    if let Some(o) = outcome_violation(&res, blame) {
      // self-deadlocks of re-entrant use are C07's; here a blocked run means the history could not
      // be played, which the property (every call is delivered) does not allow either
      v.push(o);
    } else {
      // an AsyncSubject observer that subscribes after completion: not asserted (DESIGN 4.7)
      let strong_until = m.weak_from.unwrap_or(ops.len());
      for i in 0..nobs {
        let got: Vec<Ev> = recs[i].events().into_iter().map(|e| e.ev).collect();
        history.push(format!("observer {} ({}): got [{}] expected [{}]", i, okinds[i], show(&got), show(&m.expect[i])));
        if let Some(b) = contract_breach(&recs[i].events()) {
          v.push(Violation::new("event-after-terminal", blame, format!("observer {}: {}", i, b)));
          continue;
        }
        if m.weak_from.is_none() {
          if kind == "async" && async_late(&ops, i) {
            continue;
          }
          if got != m.expect[i] {
            let class = if got.len() < m.expect[i].len() && m.expect[i].starts_with(&got) {
              "delivery-missing"
            } else if got.len() > m.expect[i].len() && got.starts_with(&m.expect[i]) {
              "delivery-extra"
            } else {
              "delivery-differs"
            };
            v.push(Violation::new(class, blame, format!("{} observer {} ({}): history [{}] must deliver [{}], delivered [{}]", kind, i, okinds[i], ops.iter().map(|o| format!("{:?}", o)).collect::<Vec<_>>().join(" "), show(&m.expect[i]), show(&got))));
          }
        } else {
          // weak invariants after producer misuse: prefix up to the misuse must match, no
          // delivery to an observer that is not subscribed, no duplicates
          let pre = if strong_until == 0 { vec![] } else { expect_at[strong_until - 1][i].clone() };
          if !got.starts_with(&pre) {
            v.push(Violation::new("delivery-differs", blame, format!("{} observer {}: before the producer's misuse at step {} it must have received [{}], got [{}]", kind, i, strong_until, show(&pre), show(&got))));
          }
        }
      }
      // registered observers after every step (strong part only)
      for n in 0..strong_until.min(counts.len()) {
        if kind == "async" && (0..nobs).any(|i| async_late(&ops[..=n], i)) {
          break;
        }
        if counts[n] != live_sizes[n] {
          v.push(Violation::new(
            "observer-count",
            blame,
            format!("{} after step {} ({:?}) of [{}]: the subject holds {} observer(s), the model has {} live", kind, n, ops[n], ops.iter().map(|o| format!("{:?}", o)).collect::<Vec<_>>().join(" "), counts[n], live_sizes[n]),
          ));
          break;
        }
      }
    }
    let mut fp = 0u64;
    for h in &history {
      fp = fp.wrapping_mul(0x100000001B3) ^ fnv(h);
    }
    let reach = vec![
      ("c10-subscribe-after-terminal", ops.iter().enumerate().any(|(n, o)| matches!(o, Op::Sub(_)) && ops[..n].iter().any(|p| matches!(p, Op::Error | Op::Complete))) as u64),
      ("c10-producer-misuse-after-terminal", m.weak_from.is_some() as u64),
      ("c10-double-unsubscribe", (0..nobs).any(|i| ops.iter().filter(|o| **o == Op::Unsub(i)).count() > 1) as u64),
    ];
    RunOut { res, violations: v, fingerprint: fp, invalid: false, reach, history }
  }
}

/// an AsyncSubject observer that subscribed after a terminal had already been signalled
fn async_late(ops: &[Op], i: usize) -> bool {
  let mut term = false;
  for o in ops {
    match o {
      Op::Error | Op::Complete => term = true,
      Op::Sub(k) if *k == i && term => return true,
      _ => {}
    }
  }
  false
}

// ================================================================================================
// one late subscriber whose own next callback pushes into the subject (during the hand-over of the
// history / latest value, or later): it still receives every item exactly once, in push order

pub struct C10Reenter;

impl Family for C10Reenter {
  fn name(&self) -> &'static str {
    "c10-subscriber-pushes-from-its-callback"
  }
  fn threaded(&self) -> bool {
    false
  }
  fn gen(&self, rng: &mut Rng, _tier: Tier) -> Json {
    Json::obj(vec![
      ("subject", Json::str(*rng.pick(&["replay", "replay", "behavior", "subject"]))),
      ("history", Json::Int(rng.below(4) as i64)),
      ("later", Json::Int(rng.below(3) as i64)),
      // the callback of the k-th item the subscriber receives pushes this many further items
      ("push_at", Json::Int(rng.below(4) as i64)),
      ("push_n", Json::Int(rng.range(1, 2) as i64)),
      ("terminal", Json::str(*rng.pick(&["complete", "error", "none"]))),
    ])
  }
  fn exec(&self, w: &Json, cfg: RunCfg) -> RunOut {
    let kind = w.s("subject");
    let (history, later, push_at, push_n) = (w.i("history"), w.i("later"), w.i("push_at"), w.i("push_n"));
    if !["replay", "behavior", "subject"].contains(&kind.as_str()) || history < 0 || history > 5 || later < 0 || later > 5 || push_at < 0 || push_at > 8 || push_n < 1 || push_n > 3 {
      return RunOut::invalid();
    }
    let terminal = w.s("terminal");
    if !["complete", "error", "none"].contains(&terminal.as_str()) {
      return RunOut::invalid();
    }
    let mut rec = Recorder::new();
    // every next call in the order in which it was made
    let pushed: Arc<Mutex<Vec<i64>>> = Arc::new(Mutex::new(Vec::new()));
    let handed_first: Arc<Mutex<Option<usize>>> = Arc::new(Mutex::new(None));
    let (pushed2, kind2, term2, hf2) = (pushed.clone(), kind.clone(), terminal.clone(), handed_first.clone());
    let rec_out = rec.clone();
    let res = rt::run(cfg, move || {
      let sbj = match Subj::make(&kind2) {
        Some(s) => s,
        None => return,
      };
      let push = {
        let (sbj, pushed) = (sbj.clone(), pushed2.clone());
        move |v: i64| {
          pushed.lock().unwrap().push(v);
          sbj.next(v);
        }
      };
      for i in 0..history {
        push(10 + i);
      }
      // how many pushes had been made when the subscriber arrived
      *hf2.lock().unwrap() = Some(pushed2.lock().unwrap().len());
      let seen = Arc::new(Mutex::new(0i64));
      {
        let push = push.clone();
        rec.hook = Some(Arc::new(move |ev: &Ev| {
          if let Ev::Next(_) = ev {
            let k = {
              let mut n = seen.lock().unwrap();
              *n += 1;
              *n - 1
            };
            if k == push_at {
              for j in 0..push_n {
                push(70 + j);
              }
            }
          }
        }));
      }
      let sub = rec.subscribe(&sbj.observable());
      for i in 0..later {
        push(40 + i);
      }
      match term2.as_str() {
        "complete" => sbj.complete(),
        "error" => sbj.error(3),
        _ => {}
      }
      rec.hook = None;
      drop(sub);
    });
    let blame = match kind.as_str() {
      "replay" => "replay_subject",
      "behavior" => "behavior_subject",
      _ => "subject",
    };
    let mut v = Vec::new();
    let pushed = pushed.lock().unwrap().clone();
    let arrived = handed_first.lock().unwrap().unwrap_or(0);
    let got: Vec<Ev> = rec_out.events().into_iter().map(|e| e.ev).collect();
    let history_s = vec![format!("{} subject, pushes in call order {:?} (the subscriber arrived after the first {}), subscriber saw {}", kind, pushed, arrived, rec_out.shown())];
    if let Some(o) = outcome_violation(&res, blame) {
      // a callback that emits into the subject it is called from must not block (C07's statement);
      // reported here too because nothing can be judged otherwise
      v.push(o);
    } else {
      // what the subscriber is owed, in push order
      let mut want: Vec<Ev> = match kind.as_str() {
        "replay" => pushed.iter().map(|x| Ev::Next(Val::Int(*x))).collect(),
        "behavior" => {
          // the latest value at arrival (the initial value 1 if nothing was pushed), then everything later
          let first = if arrived == 0 { INITIAL } else { pushed[arrived - 1] };
          std::iter::once(first).chain(pushed[arrived..].iter().copied()).map(|x| Ev::Next(Val::Int(x))).collect()
        }
        _ => pushed[arrived..].iter().map(|x| Ev::Next(Val::Int(*x))).collect(),
      };
      match terminal.as_str() {
        "complete" => want.push(Ev::Complete),
        "error" => want.push(Ev::Error(err_id(&mk_err(3)))),
        _ => {}
      }
      if got != want {
        let show = |x: &[Ev]| x.iter().map(|e| e.show()).collect::<Vec<_>>().join(" ");
        let mut sg: Vec<String> = got.iter().map(|e| e.show()).collect();
        let mut sw: Vec<String> = want.iter().map(|e| e.show()).collect();
        sg.sort();
        sw.sort();
        let class = if sg == sw { "reordered" } else if got.len() < want.len() { "lost" } else { "duplicate" };
        v.push(Violation::new(class, blame, format!("{}: a subscriber whose callback of item #{} pushes {} item(s) into the subject must get [{}] (push order, each once), got [{}]", kind, push_at, push_n, show(&want), show(&got))));
      }
    }
    let mut fpv = 0u64;
    for h in &history_s {
      fpv = fpv.wrapping_mul(0x100000001B3) ^ fnv(h);
    }
    RunOut { res, violations: v, fingerprint: fpv, invalid: false, reach: vec![], history: history_s }
  }
}

//! C12 - subjects used from several threads neither lose, duplicate nor reorder items
//! (DESIGN.md 5.12).

use crate::common::*;
use crate::json::Json;
use crate::rec::*;
use crate::val::*;
use another_rxrust::prelude::*;
use rxsim_rt as rt;
use rxsim_rt::prng::Rng;
use rxsim_rt::RunCfg;
use std::sync::{Arc, Mutex};

pub struct C12;

#[derive(Clone)]
enum Subj {
  Plain(subjects::Subject<'static, Val>),
  Behavior(subjects::BehaviorSubject<'static, Val>),
  Replay(subjects::ReplaySubject<'static, Val>),
  Async(subjects::AsyncSubject<'static, Val>),
}

impl Subj {
  fn next(&self, v: Val) {
    match self {
      Subj::Plain(s) => s.next(v),
      Subj::Behavior(s) => s.next(v),
      Subj::Replay(s) => s.next(v),
      Subj::Async(s) => s.next(v),
    }
  }
  fn observable(&self) -> Observable<'static, Val> {
    match self {
      Subj::Plain(s) => s.observable(),
      Subj::Behavior(s) => s.observable(),
      Subj::Replay(s) => s.observable(),
      Subj::Async(s) => s.observable(),
    }
  }
  fn observer_count(&self) -> usize {
    match self {
      Subj::Plain(s) => s.verif_observer_count(),
      Subj::Behavior(s) => s.verif_observer_count(),
      Subj::Replay(s) => s.verif_observer_count(),
      Subj::Async(s) => s.verif_observer_count(),
    }
  }
  fn terminal(&self, t: &Step) {
    match (self, t) {
      (Subj::Plain(s), Step::E(e)) => s.error(mk_err(*e)),
      (Subj::Plain(s), _) => s.complete(),
      (Subj::Behavior(s), Step::E(e)) => s.error(mk_err(*e)),
      (Subj::Behavior(s), _) => s.complete(),
      (Subj::Replay(s), Step::E(e)) => s.error(mk_err(*e)),
      (Subj::Replay(s), _) => s.complete(),
      (Subj::Async(s), Step::E(e)) => s.error(mk_err(*e)),
      (Subj::Async(s), _) => s.complete(),
    }
  }
}

#[derive(Clone, Debug)]
struct Push {
  item: i64,
  s: u64,
  e: u64,
}

const INITIAL: i64 = 1;

impl Family for C12 {
  fn name(&self) -> &'static str {
    "c12-subjects-threads"
  }
  fn threaded(&self) -> bool {
    true
  }
  fn gen(&self, rng: &mut Rng, tier: Tier) -> Json {
    let np = rng.range(1, 2);
    let maxn = if tier == Tier::Quick { 3 } else { 4 };
    let producers: Vec<Json> = (0..np).map(|_| Json::Int(rng.range(1, maxn) as i64)).collect();
    Json::obj(vec![
      ("subject", Json::str(*rng.pick(&["subject", "behavior", "replay", "subject", "behavior", "replay", "async"]))),
      ("producers", Json::Arr(producers)),
      ("steady", Json::Bool(rng.below(4) != 0)),
      // -1 = absent; otherwise number of scheduling points the task waits before acting
      ("late_subscriber_wait", Json::Int(if rng.below(4) != 0 { rng.below(10) as i64 } else { -1 })),
      ("second_late_subscriber_wait", Json::Int(if rng.below(4) == 0 { rng.below(10) as i64 } else { -1 })),
      ("third_late_subscriber_wait", Json::Int(if rng.below(8) == 0 { rng.below(10) as i64 } else { -1 })),
      // producer 0 signals a terminal after its items (single producer only)
      ("terminal", Json::str(if np == 1 { *rng.pick(&["none", "none", "complete", "complete", "error"]) } else { "none" })),
      ("unsubscriber_wait", Json::Int(if rng.below(2) == 0 { rng.below(10) as i64 } else { -1 })),
      ("cb_probes", Json::Int(rng.below(2) as i64)),
      ("via_map", Json::Bool(rng.below(4) == 0)),
      // a subscriber behind take(1): it leaves from inside the delivery of its first item
      ("take1_subscriber_wait", Json::Int(if rng.below(3) == 0 { rng.below(10) as i64 } else { -1 })),
    ])
  }
  fn exec(&self, w: &Json, cfg: RunCfg) -> RunOut {
    let kind = w.s("subject");
    if !["subject", "behavior", "replay", "async"].contains(&kind.as_str()) {
      return RunOut::invalid();
    }
    let counts: Vec<i64> = w.a("producers").iter().filter_map(|x| x.as_i64()).collect();
    if counts.is_empty() || counts.len() > 3 || counts.iter().any(|c| *c < 1 || *c > 6) {
      return RunOut::invalid();
    }
    let steady = w.b("steady");
    let late = w.i("late_subscriber_wait");
    let late2 = w.i("second_late_subscriber_wait");
    let late3 = if w.get("third_late_subscriber_wait").is_some() { w.i("third_late_subscriber_wait") } else { -1 };
    let terminal = match w.get("terminal").and_then(|x| x.as_str()) {
      None | Some("none") => None,
      Some("complete") => Some(Step::C),
      Some("error") => Some(Step::E(6)),
      _ => return RunOut::invalid(),
    };
    if terminal.is_some() && counts.len() != 1 {
      return RunOut::invalid();
    }
    let unsub = w.i("unsubscriber_wait");
    let probes = w.i("cb_probes").clamp(0, 2) as u32;
    let via_map = w.b("via_map");
    let take1 = if w.get("take1_subscriber_wait").is_some() { w.i("take1_subscriber_wait") } else { -1 };
    let rec_t = Recorder::with_probes(probes);
    let count_end: Arc<Mutex<Option<usize>>> = Arc::new(Mutex::new(None));
    let current_end: Arc<Mutex<Option<i64>>> = Arc::new(Mutex::new(None));
    let cur2 = current_end.clone();
    let (rt2, ce2) = (rec_t.clone(), count_end.clone());
    let scripts: Vec<Vec<i64>> = counts.iter().enumerate().map(|(p, n)| (0..*n).map(|i| (p as i64 + 1) * 100 + i).collect()).collect();
    let rec_a = Recorder::with_probes(probes);
    let rec_b = Recorder::with_probes(probes);
    let rec_b2 = Recorder::with_probes(probes);
    let rec_b3 = Recorder::with_probes(probes);
    let term_stamp: Arc<Mutex<Option<(u64, u64)>>> = Arc::new(Mutex::new(None));
    let rec_c = Recorder::with_probes(probes);
    let pushes: Arc<Mutex<Vec<Push>>> = Arc::new(Mutex::new(Vec::new()));
    // (subscribe start, subscribe end) of B / B2; (unsubscribe start, end) of C
    // indices: 0 = B, 1 = B2, 2 = C (unsubscribe), 3 = B3
    let stamps: Arc<Mutex<[Option<(u64, u64)>; 4]>> = Arc::new(Mutex::new([None; 4]));
    let (ra, rb, rb2, rc, pu, stp, sc) = (rec_a.clone(), rec_b.clone(), rec_b2.clone(), rec_c.clone(), pushes.clone(), stamps.clone(), scripts.clone());
    let (rb3, ts2, term2) = (rec_b3.clone(), term_stamp.clone(), terminal.clone());
    let kind2 = kind.clone();
    let res = rt::run(cfg, move || {
      let sbj = match kind2.as_str() {
        "subject" => Subj::Plain(subjects::Subject::new()),
        "behavior" => Subj::Behavior(subjects::BehaviorSubject::new(Val::Int(INITIAL))),
        "async" => Subj::Async(subjects::AsyncSubject::new()),
        _ => Subj::Replay(subjects::ReplaySubject::new()),
      };
      let obs = move |s: &Subj| if via_map { s.observable().map(|x: Val| x) } else { s.observable() };
      let _sub_a = if steady { Some(ra.subscribe(&obs(&sbj))) } else { None };
      let sub_c = if unsub >= 0 { Some(rc.subscribe(&obs(&sbj))) } else { None };
      let mut hs = Vec::new();
      for (p, script) in sc.into_iter().enumerate() {
        let (sbj, pu) = (sbj.clone(), pu.clone());
        let (term, ts) = (if p == 0 { term2.clone() } else { None }, ts2.clone());
        hs.push(rt::spawn_harness(&format!("producer{}", p), move || {
          for item in script {
            let s = rt::seq();
            sbj.next(Val::Int(item));
            let e = rt::seq();
            pu.lock().unwrap().push(Push { item, s, e });
          }
          if let Some(t) = term {
            let s = rt::seq();
            sbj.terminal(&t);
            let e = rt::seq();
            *ts.lock().unwrap() = Some((s, e));
          }
        }));
      }
      for (k, (wait, rec)) in [(0usize, (late, rb)), (1usize, (late2, rb2)), (3usize, (late3, rb3))] {
        if wait >= 0 {
          let (sbj, stp) = (sbj.clone(), stp.clone());
          let obs = obs.clone();
          hs.push(rt::spawn_harness("late-subscriber", move || {
            for _ in 0..wait {
              rt::probe("c12-late-subscriber-wait");
            }
            let s = rt::seq();
            let sub = rec.subscribe(&obs(&sbj));
            let e = rt::seq();
            stp.lock().unwrap()[k] = Some((s, e));
            std::mem::forget(sub);
          }));
        }
      }
      if take1 >= 0 {
        let (sbj, obs) = (sbj.clone(), obs.clone());
        hs.push(rt::spawn_harness("take1-subscriber", move || {
          for _ in 0..take1 {
            rt::probe("c12-take1-subscriber-wait");
          }
          let sub = rt2.subscribe(&obs(&sbj).take(1));
          std::mem::forget(sub);
        }));
      }
      if let Some(sub_c) = sub_c {
        let stp = stp.clone();
        hs.push(rt::spawn_harness("unsubscriber", move || {
          for _ in 0..unsub {
            rt::probe("c12-unsubscriber-wait");
          }
          let s = rt::seq();
          sub_c.unsubscribe();
          let e = rt::seq();
          stp.lock().unwrap()[2] = Some((s, e));
        }));
      }
      for h in hs {
        let _ = h.join();
      }
      rt::quiesce();
      *ce2.lock().unwrap() = Some(sbj.observer_count());
      // what a fresh subscriber is handed now = the subject's current value (BehaviorSubject)
      if matches!(sbj, Subj::Behavior(_)) {
        let rf = Recorder::new();
        let s = rf.subscribe(&sbj.observable());
        s.unsubscribe();
        *cur2.lock().unwrap() = rf.events().first().and_then(|e| if let Ev::Next(x) = &e.ev { Some(x.int()) } else { None });
      }
    });
    // ---- oracle
    let blame = match kind.as_str() {
      "subject" => "subject",
      "behavior" => "behavior_subject",
      "async" => "async_subject",
      _ => "replay_subject",
    };
    let mut v = Vec::new();
    let pushes = pushes.lock().unwrap().clone();
    let stamps = *stamps.lock().unwrap();
    let ints = |r: &Recorder| -> Vec<i64> { r.events().iter().filter_map(|r| if let Ev::Next(x) = &r.ev { Some(x.int()) } else { None }).collect() };
    let (a, b, b2, c) = (ints(&rec_a), ints(&rec_b), ints(&rec_b2), ints(&rec_c));
    let mut history = Vec::new();
    for p in &pushes {
      history.push(format!("{:>4}..{:<4} push {}", p.s, p.e, p.item));
    }
    for (n, r) in [("A(steady)", &rec_a), ("B(late)", &rec_b), ("B2(late)", &rec_b2), ("B3(late)", &rec_b3), ("C(unsubscribed)", &rec_c), ("T(take 1)", &rec_t)] {
      for e in r.events() {
        history.push(format!("{:>4}..{:<4} {} gets {}", e.seq_in, e.seq_out, n, e.ev.show()));
      }
    }
    for (i, n) in ["B subscribe", "B2 subscribe", "C unsubscribe", "B3 subscribe"].iter().enumerate() {
      if let Some((s, e)) = stamps[i] {
        history.push(format!("{:>4}..{:<4} {}", s, e, n));
      }
    }
    history.sort();
    if let Some(o) = outcome_violation(&res, blame) {
      v.push(o);
    } else {
      let term_at = *term_stamp.lock().unwrap();
      let want_term: Option<Ev> = terminal.as_ref().map(|t| match t {
        Step::E(e) => Ev::Error(*e),
        _ => Ev::Complete,
      });
      for (name, r, stamp) in [("A", &rec_a, None), ("B", &rec_b, stamps[0]), ("B2", &rec_b2, stamps[1]), ("B3", &rec_b3, stamps[3]), ("C", &rec_c, None)] {
        let evs = r.events();
        let terms: Vec<&Rec> = evs.iter().filter(|e| e.ev.is_terminal()).collect();
        match (&want_term, term_at) {
          (None, _) => {
            if !terms.is_empty() {
              v.push(Violation::new("unexpected-terminal", blame, format!("observer {} received a terminal although none was signalled: {}", name, r.shown())));
            }
          }
          (Some(t), Some((ts, _te))) => {
            if terms.len() > 1 || terms.iter().any(|x| x.ev != *t) || crate::rec::contract_breach(&evs).is_some() {
              v.push(Violation::new("terminal-wrong", blame, format!("observer {}: the producer signalled {} once; the observer saw {}", name, t.show(), r.shown())));
            }
            // who must get it: the steady observer; a late one that had subscribed before the
            // terminal call started; with a ReplaySubject every observer that subscribed at all
            let subscribed_before = match (name, stamp) {
              ("A", _) => steady,
              ("C", _) => false,
              (_, Some((_, s1))) => s1 < ts || kind == "replay",
              _ => false,
            };
            if subscribed_before && terms.is_empty() {
              v.push(Violation::new("terminal-lost", blame, format!("observer {} was subscribed when the producer signalled {} (at {}), but never received it: {}", name, t.show(), ts, r.shown())));
            }
          }
          _ => {}
        }
      }
      let dup = |xs: &[i64]| -> Option<i64> {
        let mut seen = std::collections::BTreeSet::new();
        xs.iter().find(|x| !seen.insert(**x)).copied()
      };
      let per_producer = |xs: &[i64], p: usize| -> Vec<i64> { xs.iter().filter(|x| **x / 100 == p as i64 + 1).copied().collect() };
      let push_of = |item: i64| pushes.iter().find(|p| p.item == item);
      // A: everything exactly once, per-producer order (behavior: initial value first)
      if kind == "async" {
        // AsyncSubject: nothing before the completion, then only the last item (of those pushed
        // since the observer subscribed), then complete; nothing at all on error or without terminal.
        // A terminal needs a single producer, so "the last item" is the last one of its script.
        let last = scripts[0].last().copied();
        let last_push = last.and_then(|l| push_of(l).cloned());
        let completes = want_term == Some(Ev::Complete);
        let u_done = stamps[2].map(|(_, u1)| u1);
        for (name, r, stamp) in [("A", &rec_a, Some((0u64, 0u64))), ("B", &rec_b, stamps[0]), ("B2", &rec_b2, stamps[1]), ("B3", &rec_b3, stamps[3]), ("C", &rec_c, Some((0u64, 0u64))), ("T", &rec_t, None)] {
          let evs = r.events();
          let items = ints(r);
          if items.len() > 1 {
            v.push(Violation::new("async-several-items", blame, format!("observer {} of an AsyncSubject received more than one item: {}", name, r.shown())));
            continue;
          }
          if let Some(x) = items.first() {
            // the observer that unsubscribes concurrently may leave between the item and the completion
            let left_meanwhile = name == "C" && evs.len() == 1 && stamps[2].is_some();
            let followed = (evs.len() == 2 && evs[1].ev == Ev::Complete) || left_meanwhile;
            // "on completion": the item is handed out inside the producer's complete() call
            let inside = match term_at {
              Some((ts, te)) => evs[0].seq_in > ts && evs[0].seq_out < te,
              None => false,
            };
            if !completes || !followed || !inside {
              v.push(Violation::new("async-item-without-completion", blame, format!("observer {} of an AsyncSubject received an item that is not followed by the producer's completion (signalled: {}): {}", name, want_term.as_ref().map(|t| t.show()).unwrap_or("nothing".into()), r.shown())));
              continue;
            }
            if Some(*x) != last {
              v.push(Violation::new("async-not-last", blame, format!("observer {} of an AsyncSubject received {} on completion, the last item pushed was {:?}: {}", name, x, last, r.shown())));
              continue;
            }
            if let (Some((s0, _)), Some(lp)) = (stamp, &last_push) {
              if lp.e < s0 {
                v.push(Violation::new("delivered-before-subscribe", blame, format!("observer {} received {} whose push had returned (at {}) before its subscribe started (at {})", name, x, lp.e, s0)));
              }
            }
          } else if completes && evs.iter().any(|e| e.ev == Ev::Complete) {
            // completed without an item: only right if the last push did not start after the subscription was in place
            if let (Some((_, s1)), Some(lp)) = (stamp, &last_push) {
              let is_c = name == "C";
              if lp.s > s1 && !is_c {
                v.push(Violation::new("lost", blame, format!("observer {} of an AsyncSubject was subscribed (since {}) when {} was pushed ({}..{}) and completed without receiving it: {}", name, s1, lp.item, lp.s, lp.e, r.shown())));
              }
            }
          }
          if name == "C" {
            if let (Some(u1), Some((ts, _))) = (u_done, term_at) {
              if u1 < ts && !evs.is_empty() {
                v.push(Violation::new("delivered-after-unsubscribe", blame, format!("the unsubscribing observer of an AsyncSubject had left (at {}) before the terminal was signalled (at {}), yet it saw {}", u1, ts, r.shown())));
              }
            }
          }
        }
      }
      if steady && kind != "async" {
        let mut a_items = a.clone();
        if kind == "behavior" {
          if a_items.first() != Some(&INITIAL) {
            v.push(Violation::new("lost", blame, format!("steady observer of a BehaviorSubject did not get the initial value first: {:?}", a)));
          } else {
            a_items.remove(0);
          }
        }
        if let Some(d) = dup(&a_items) {
          v.push(Violation::new("duplicate", blame, format!("steady observer received {} twice: {:?}", d, a)));
        }
        for (p, script) in scripts.iter().enumerate() {
          let got = per_producer(&a_items, p);
          if got != *script {
            let class = if got.len() < script.len() { "lost" } else { "reordered" };
            v.push(Violation::new(class, blame, format!("steady observer: producer {} pushed {:?}, observer received {:?}", p, script, got)));
          }
        }
      }
      // B, B2: concurrent subscribe
      let b3 = ints(&rec_b3);
      for (k, (bx, label)) in [(0usize, (&b, "B")), (1usize, (&b2, "B2")), (3usize, (&b3, "B3"))] {
        let (s0, s1) = match stamps[k] {
          Some(x) => x,
          None => continue,
        };
        if kind == "async" {
          continue;
        }
        let mut items: Vec<i64> = bx.clone();
        let mut v0: Option<i64> = None;
        if kind == "behavior" {
          if items.is_empty() {
            // a subscriber that arrives after the terminal is handed the stored terminal only
            let rec_k = match k {
              0 => &rec_b,
              1 => &rec_b2,
              _ => &rec_b3,
            };
            if !rec_k.events().iter().any(|e| e.ev.is_terminal()) {
              v.push(Violation::new("lost", blame, format!("late subscriber {} of a BehaviorSubject received no value at all", label)));
            }
            continue;
          }
          v0 = Some(items.remove(0));
        }
        let overlap_detail = |item: i64| -> String {
          match push_of(item) {
            Some(p) => format!("push({}) ran {}..{}, subscribe ran {}..{}", item, p.s, p.e, s0, s1),
            None => String::new(),
          }
        };
        let mut all = items.clone();
        if let Some(x) = v0 {
          all.insert(0, x);
        }
        if let Some(d) = dup(&all) {
          v.push(Violation::new("duplicate", blame, format!("late subscriber {} received {} twice: {:?}; {}", label, d, bx, overlap_detail(d))));
        }
        for (p, script) in scripts.iter().enumerate() {
          let got = per_producer(&items, p);
          // subsequence in order
          let mut idx = Vec::new();
          let mut ok_order = true;
          for g in &got {
            match script.iter().position(|x| x == g) {
              Some(i) => {
                if idx.last().map_or(false, |l| *l >= i) {
                  ok_order = false;
                }
                idx.push(i);
              }
              None => ok_order = false,
            }
          }
          if !ok_order {
            if dup(&got).is_none() {
              v.push(Violation::new("reordered", blame, format!("late subscriber {}: producer {} pushed {:?}, received {:?}", label, p, script, got)));
            }
            continue;
          }
          // which items are required?
          let mut required_from: usize = script.len();
          for (i, item) in script.iter().enumerate() {
            let must = match kind.as_str() {
              "replay" => true,
              _ => push_of(*item).map_or(false, |pp| pp.s > s1),
            };
            if must {
              required_from = required_from.min(i);
            }
          }
          if kind == "behavior" {
            match v0 {
              Some(x) if x == INITIAL => required_from = 0,
              Some(x) if x / 100 == p as i64 + 1 => {
                if let Some(i) = script.iter().position(|y| *y == x) {
                  required_from = required_from.min(i + 1);
                }
              }
              _ => {}
            }
          }
          // gap-free suffix: from the first received (or first required) item on, everything
          let first_got = idx.first().copied().unwrap_or(script.len());
          let start = first_got.min(required_from);
          let want: Vec<i64> = script[start..].to_vec();
          let got_dedup: Vec<i64> = got.clone();
          if got_dedup != want && dup(&got).is_none() {
            let missing: Vec<i64> = want.iter().filter(|x| !got.contains(x)).copied().collect();
            let class = if kind == "subject" { "gap" } else { "lost" };
            v.push(Violation::new(
              class,
              blame,
              format!(
                "late subscriber {} ({}): producer {} pushed {:?}; received {:?}{}; missing {:?}; {}",
                label,
                kind,
                p,
                script,
                got,
                v0.map(|x| format!(" after first value {}", x)).unwrap_or_default(),
                missing,
                missing.first().map(|m| overlap_detail(*m)).unwrap_or_default()
              ),
            ));
          }
          // plain subject: nothing that was completely pushed before subscribe started
          if kind == "subject" {
            for g in &got {
              if push_of(*g).map_or(false, |pp| pp.e < s0) {
                v.push(Violation::new("delivered-before-subscribe", blame, format!("late subscriber {} received {} whose push had returned before subscribe started", label, g)));
              }
            }
          }
        }
      }
      // BehaviorSubject, no terminal: the value that is current once everything is quiet was stored
      // by some push; whoever was subscribed by then has been handed it or has received it since
      if let (None, Some(cur), true) = (&want_term, *current_end.lock().unwrap(), kind == "behavior") {
        for (name, got, present) in [("A (steady)", &a, steady), ("B (late)", &b, stamps[0].is_some()), ("B2 (late)", &b2, stamps[1].is_some()), ("B3 (late)", &b3, stamps[3].is_some())] {
          if present && !got.contains(&cur) {
            v.push(Violation::new("lost", blame, format!("observer {} of a BehaviorSubject is still subscribed and has never seen {}, the value a fresh subscriber is handed once all pushes have returned: it saw {:?}", name, cur, got)));
          }
        }
      }
      // who is still registered with the subject once everything is quiet (no terminal involved):
      // the observers that stayed; not the one that unsubscribed, not a take(1) that got its item
      if let (None, Some(n)) = (&want_term, *count_end.lock().unwrap()) {
        let t_left = rec_t.events().iter().any(|e| matches!(e.ev, Ev::Next(_)));
        let expected = steady as usize + [0usize, 1, 3].iter().filter(|k| stamps[**k].is_some()).count() + (take1 >= 0 && !t_left) as usize + (unsub >= 0 && stamps[2].is_none()) as usize;
        if n != expected {
          v.push(Violation::new(
            "observer-count-wrong",
            blame,
            format!("at quiescence the subject holds {} observer(s), expected {} (steady {}, late {}, take(1) subscriber {}, unsubscriber gone {}): take(1) subscriber saw {}", n, expected, steady, [0usize, 1, 3].iter().filter(|k| stamps[**k].is_some()).count(), if take1 < 0 { "absent" } else if t_left { "left after its item" } else { "still waiting" }, stamps[2].is_some(), rec_t.shown()),
          ));
        }
        // the take(1) subscriber: exactly one item, then complete
        let te = rec_t.events();
        if t_left && (te.len() != 2 || te[1].ev != Ev::Complete) {
          v.push(Violation::new("take1-wrong", blame, format!("subscriber behind take(1) saw {}", rec_t.shown())));
        }
      }
      // C: concurrent unsubscribe
      if let (Some((_, u1)), true) = (stamps[2], kind != "async") {
        let mut items = c.clone();
        if kind == "behavior" && items.first() == Some(&INITIAL) {
          items.remove(0);
        }
        if let Some(d) = dup(&items) {
          v.push(Violation::new("duplicate", blame, format!("unsubscribing observer received {} twice: {:?}", d, c)));
        }
        for (p, script) in scripts.iter().enumerate() {
          let got = per_producer(&items, p);
          if !script.starts_with(&got) && dup(&got).is_none() {
            v.push(Violation::new("gap", blame, format!("unsubscribing observer: producer {} pushed {:?}, received {:?} (not a gap-free prefix)", p, script, got)));
          }
          for g in &got {
            if push_of(*g).map_or(false, |pp| pp.s > u1) {
              v.push(Violation::new("delivered-after-unsubscribe", blame, format!("{} was delivered although its push started after unsubscribe returned at {}", g, u1)));
            }
          }
        }
      }
    }
    let mut fp = 0u64;
    for h in &history {
      fp = fp.wrapping_mul(0x100000001B3) ^ fnv(h.split_whitespace().skip(1).collect::<Vec<_>>().join(" ").as_str());
    }
    let overlap = |k: usize| stamps[k].map_or(false, |(s0, s1)| pushes.iter().any(|p| p.s < s1 && p.e > s0));
    let reach = vec![
      ("c12-subscribe-overlaps-push", (overlap(0) || overlap(1)) as u64),
      ("c12-unsubscribe-overlaps-push", overlap(2) as u64),
      ("c12-two-producers", (scripts.len() > 1) as u64),
    ];
    RunOut { res, violations: v, fingerprint: fp, invalid: false, reach, history }
  }

  fn explains(&self, pred: &str, _w: &Json, v: &Violation) -> bool {
    match pred {
      // the item concerned was being pushed while the late subscriber was subscribing
      "push-overlaps-subscribe" => {
        let d = &v.detail;
        let nums = |key: &str| -> Option<(u64, u64)> {
          let i = d.find(key)?;
          let rest = &d[i + key.len()..];
          let mut it = rest.split(|c: char| !c.is_ascii_digit()).filter(|s| !s.is_empty());
          Some((it.next()?.parse().ok()?, it.next()?.parse().ok()?))
        };
        match (nums(") ran "), nums("subscribe ran ")) {
          (Some((ps, pe)), Some((s0, s1))) => ps < s1 && pe > s0,
          _ => false,
        }
      }
      _ => false,
    }
  }
}

//! C13 - connectable observables share one source subscription among their subscribers
//! (DESIGN.md 5.13): generated call histories on publish / ref_count / replay over a hot
//! instrumented source or a cold source that emits synchronously inside connect/first-subscribe.

use crate::common::*;
use crate::json::Json;
use crate::rec::*;
use crate::val::*;
use another_rxrust::prelude::*;
use rxsim_rt as rt;
use rxsim_rt::prng::Rng;
use rxsim_rt::RunCfg;
use std::sync::{Arc, Mutex};

pub struct C13;

#[derive(Clone, Debug, PartialEq)]
enum Op {
  Sub(usize),
  Unsub(usize),
  Connect,
  Disconnect,
  Emit,
}

fn op_to_json(o: &Op) -> Json {
  match o {
    Op::Sub(i) => Json::Arr(vec![Json::str("sub"), Json::Int(*i as i64)]),
    Op::Unsub(i) => Json::Arr(vec![Json::str("unsub"), Json::Int(*i as i64)]),
    Op::Connect => Json::Arr(vec![Json::str("connect")]),
    Op::Disconnect => Json::Arr(vec![Json::str("disconnect")]),
    Op::Emit => Json::Arr(vec![Json::str("emit")]),
  }
}

fn op_from_json(j: &Json, n: usize) -> Option<Op> {
  let a = j.as_arr()?;
  let arg = a.get(1).and_then(|x| x.as_i64());
  Some(match a.first()?.as_str()? {
    "sub" => Op::Sub(arg.filter(|x| *x >= 0 && (*x as usize) < n)? as usize),
    "unsub" => Op::Unsub(arg.filter(|x| *x >= 0 && (*x as usize) < n)? as usize),
    "connect" => Op::Connect,
    "disconnect" => Op::Disconnect,
    "emit" => Op::Emit,
    _ => return None,
  })
}

#[derive(Clone, Debug, Default)]
struct Snap {
  src_subscriptions: usize,
  src_live: usize,
}

enum Conn {
  Publish(operators::Publish<'static, Val>),
  RefCount(operators::RefCount<'static, Val>),
  Replay(operators::Replay<'static, Val>),
}

impl Conn {
  fn observable(&self) -> Observable<'static, Val> {
    match self {
      Conn::Publish(p) => p.observable(),
      Conn::RefCount(p) => p.observable(),
      Conn::Replay(p) => p.observable(),
    }
  }
}

impl Family for C13 {
  fn name(&self) -> &'static str {
    "c13-connectables"
  }
  fn threaded(&self) -> bool {
    false
  }
  fn gen(&self, rng: &mut Rng, tier: Tier) -> Json {
    let kind = *rng.pick(&["publish", "ref_count", "replay"]);
    let nsub = rng.range(1, 3) as usize;
    let len = rng.range(2, if tier == Tier::Quick { 8 } else { 12 });
    let cold = rng.below(3) == 0;
    let n_items = rng.below(4);
    let mut script: Vec<Step> = (0..n_items).map(|i| Step::N(10 + i as i64)).collect();
    match rng.below(4) {
      0 => script.push(Step::E(2)),
      1 | 2 => script.push(Step::C),
      _ => {}
    }
    let mut ops = Vec::new();
    for _ in 0..len {
      ops.push(match rng.below(if kind == "publish" { 14 } else { 11 }) {
        0..=3 => Op::Sub(rng.below(nsub as u64) as usize),
        4..=5 => Op::Unsub(rng.below(nsub as u64) as usize),
        6..=10 => Op::Emit,
        11..=12 => Op::Connect,
        _ => Op::Disconnect,
      });
    }
    let subs_k: Vec<&str> = (0..nsub).map(|_| *rng.pick(&["direct", "direct", "map", "take1", "take2"])).collect();
    let nested_ok = kind == "replay" && cold && nsub >= 2 && subs_k[..2].iter().all(|k| *k == "direct" || *k == "map");
    Json::obj(vec![
      ("kind", Json::str(kind)),
      ("source", Json::str(if cold { *rng.pick(&["cold", "cold-polite"]) } else { "hot" })),
      ("script", script_to_json(&script)),
      ("subscribers", Json::Arr(subs_k.iter().map(|k| Json::str(*k)).collect())),
      ("ops", Json::arr(ops.iter(), op_to_json)),
      // all subscribers use one Observable value obtained once, or a fresh observable() each
      ("share_observable", Json::Bool(rng.below(2) == 0)),
      // replay over a cold source: subscriber i subscribes subscriber j from inside its terminal
      // callback (while the source's subscribe function has not returned yet, if that is the burst)
      ("nested", if nested_ok && rng.below(2) == 0 { Json::Arr(vec![Json::Int(0), Json::Int(1)]) } else { Json::Null }),
    ])
  }
  fn exec(&self, w: &Json, cfg: RunCfg) -> RunOut {
    let kind = w.s("kind");
    let share = w.b("share_observable");
    if !["publish", "ref_count", "replay"].contains(&kind.as_str()) {
      return RunOut::invalid();
    }
    let src_mode = w.s("source");
    if !["hot", "cold", "cold-polite"].contains(&src_mode.as_str()) {
      return RunOut::invalid();
    }
    let script = match w.get("script").and_then(script_from_json) {
      Some(s) if s.len() <= 8 => s,
      _ => return RunOut::invalid(),
    };
    let nterm = script.iter().filter(|s| !matches!(s, Step::N(_))).count();
    if nterm > 1 || (nterm == 1 && matches!(script.last(), Some(Step::N(_)))) {
      return RunOut::invalid();
    }
    let skinds: Vec<String> = w.a("subscribers").iter().filter_map(|x| x.as_str().map(|s| s.to_string())).collect();
    let nsub = skinds.len();
    if nsub == 0 || nsub > 3 || skinds.iter().any(|k| !["direct", "map", "take1", "take2"].contains(&k.as_str())) {
      return RunOut::invalid();
    }
    let mut ops = Vec::new();
    for o in w.a("ops") {
      match op_from_json(&o, nsub) {
        Some(x) => ops.push(x),
        None => return RunOut::invalid(),
      }
    }
    if ops.len() > 16 {
      return RunOut::invalid();
    }
    let cold = src_mode != "hot";
    let nested: Option<(usize, usize)> = match w.get("nested") {
      Some(Json::Arr(a)) if a.len() == 2 => match (a[0].as_i64(), a[1].as_i64()) {
        (Some(i), Some(j)) if i >= 0 && j >= 0 && i != j && (i as usize) < nsub && (j as usize) < nsub => Some((i as usize, j as usize)),
        _ => return RunOut::invalid(),
      },
      _ => None,
    };
    if let Some((i, j)) = nested {
      // only where a subscriber's terminal can only be the source's (no take), over a cold source
      if kind != "replay" || !cold || [i, j].iter().any(|k| !["direct", "map"].contains(&skinds[*k].as_str())) {
        return RunOut::invalid();
      }
    }
    // ---- run
    let recs: Vec<Recorder> = (0..nsub).map(|_| Recorder::new()).collect();
    let src_log = Arc::new(Mutex::new(SrcLog::default()));
    let snaps: Arc<Mutex<Vec<(u64, Snap)>>> = Arc::new(Mutex::new(Vec::new()));
    let (recs2, sl, snaps2, ops2, kind2, sk2, script2, sm2) = (recs.clone(), src_log.clone(), snaps.clone(), ops.clone(), kind.clone(), skinds.clone(), script.clone(), src_mode.clone());
    let res = rt::run(cfg, move || {
      let mut hot = HotSource::new();
      hot.log = sl.clone();
      let cold_observers: Arc<Mutex<Vec<Observer<'static, Val>>>> = Arc::new(Mutex::new(Vec::new()));
      let source: Observable<'static, Val> = if sm2 == "hot" {
        hot.observable()
      } else {
        // cold: plays the script inside subscribe, keeps the observer for the liveness probe
        let (script, log, co, polite) = (script2.clone(), sl.clone(), cold_observers.clone(), sm2 == "cold-polite");
        Observable::create(move |s: Observer<'static, Val>| {
          let k = {
            let mut l = log.lock().unwrap();
            l.subscriptions.push((rt::seq(), 0));
            l.subscriptions.len() - 1
          };
          co.lock().unwrap().push(s.clone());
          for st in &script {
            if polite && !s.is_subscribed() {
              break;
            }
            emit(&s, k, st, &log, &None);
          }
        })
      };
      let conn = match kind2.as_str() {
        "publish" => Conn::Publish(source.publish()),
        "ref_count" => Conn::RefCount(source.ref_count()),
        _ => Conn::Replay(source.replay()),
      };
      let mut subs: Vec<Option<Subscription<'static>>> = vec![None; recs2.len()];
      let mut ever = vec![false; recs2.len()];
      let mut connection: Option<Subscription<'static>> = None;
      let shared_obs = conn.observable();
      let get_obs = |c: &Conn| if share { shared_obs.clone() } else { c.observable() };
      let mut pos = 0usize;
      let (mut connected_h, mut done_h) = (false, false);
      let nested_sub: Arc<Mutex<Option<Subscription<'static>>>> = Arc::new(Mutex::new(None));
      let nested_done = Arc::new(Mutex::new(false));
      let mut recs2 = recs2;
      if let Some((ni, nj)) = nested {
        let (rj, oj, cell, done) = (recs2[nj].clone(), if sk2[nj] == "map" { get_obs(&conn).map(|x: Val| x) } else { get_obs(&conn) }, nested_sub.clone(), nested_done.clone());
        recs2[ni].hook = Some(Arc::new(move |ev: &Ev| {
          if ev.is_terminal() {
            let first = {
              let mut d = done.lock().unwrap();
              !std::mem::replace(&mut *d, true)
            };
            if first {
              let s = rj.subscribe(&oj);
              *cell.lock().unwrap() = Some(s);
            }
          }
        }));
      }
      for op in &ops2 {
        if let Some((_, nj)) = nested {
          if *nested_done.lock().unwrap() {
            ever[nj] = true;
          }
        }
        match op {
          Op::Sub(i) => {
            if !ever[*i] {
              ever[*i] = true;
              if nested.map_or(false, |(_, nj)| nj == *i) {
                *nested_done.lock().unwrap() = true;
              }
              let o = match sk2[*i].as_str() {
                "map" => get_obs(&conn).map(|x: Val| x),
                "take1" => get_obs(&conn).take(1),
                "take2" => get_obs(&conn).take(2),
                _ => get_obs(&conn),
              };
              subs[*i] = Some(recs2[*i].subscribe(&o));
            }
          }
          Op::Unsub(i) => {
            if let Some(s) = &subs[*i] {
              s.unsubscribe();
            }
            if nested.map_or(false, |(_, nj)| nj == *i) {
              let s = nested_sub.lock().unwrap().clone();
              if let Some(s) = s {
                s.unsubscribe();
              }
            }
          }
          Op::Connect => {
            if let Conn::Publish(p) = &conn {
              // the first connect; or, over a hot source that has not ended, a new connection after
              // the previous one was unsubscribed (connect, disconnect, connect)
              if connection.is_none() || (sm2 == "hot" && !connected_h && !done_h) {
                connection = Some(p.connect());
                connected_h = true;
              }
            }
          }
          Op::Disconnect => {
            if let Some(c) = &connection {
              c.unsubscribe();
              connected_h = false;
            }
          }
          Op::Emit => {
            if sm2 == "hot" && pos < script2.len() {
              let st = script2[pos].clone();
              pos += 1;
              if connected_h && !matches!(st, Step::N(_)) {
                done_h = true;
              }
              hot.step_all(&st);
            }
          }
        }
        let live = if sm2 == "hot" {
          (0..hot.n_subscribed()).filter(|n| hot.is_subscribed(*n) == Some(true)).count()
        } else {
          let os: Vec<_> = cold_observers.lock().unwrap().clone();
          os.iter().filter(|o| o.is_subscribed()).count()
        };
        let nsubs = sl.lock().unwrap().subscriptions.len();
        snaps2.lock().unwrap().push((rt::seq(), Snap { src_subscriptions: nsubs, src_live: live }));
      }
      if let Some((ni, _)) = nested {
        recs2[ni].hook = None;
      }
    });
    // ---- model
    let blame = kind.as_str();
    let show = |x: &[Ev]| x.iter().map(|e| e.show()).collect::<Vec<_>>().join(" ");
    let ops_s = ops.iter().map(|o| format!("{:?}", o)).collect::<Vec<_>>().join(" ");
    let mut v = Vec::new();
    let mut history = vec![format!("{} over {} source {:?}, subscribers {:?}: {}", kind, src_mode, script.iter().map(|s| s.show()).collect::<Vec<_>>(), skinds, ops_s)];
    let snaps = snaps.lock().unwrap().clone();
    let emits = src_log.lock().unwrap().emits.clone();
    if let Some(o) = outcome_violation(&res, blame) {
      v.push(o);
    } else {
      // model state
      let limit: Vec<Option<usize>> = skinds.iter().map(|k| match k.as_str() {
        "take1" => Some(1),
        "take2" => Some(2),
        _ => None,
      }).collect();
      let mut live = vec![false; nsub];
      let mut ever = vec![false; nsub];
      let mut taken = vec![0usize; nsub];
      let mut expect: Vec<Vec<Ev>> = vec![Vec::new(); nsub];
      let mut connected = false; // a source subscription exists and is meant to be live
      let mut connect_used = false;
      let mut dropped = false; // ref_count/replay: count fell to zero once (reconnection is not asserted)
      let mut weak = false; // deliveries no longer asserted
      let mut src_done = false; // the source signalled its terminal
      let mut history_items: Vec<i64> = Vec::new();
      let mut stored_terminal: Option<Ev> = None;
      let mut pos = 0usize;
      let mut exp_src_subs = 0usize;
      let mut exp_live: Vec<Option<usize>> = Vec::new(); // expected live source subscriptions after each op (None = not asserted)
      // deliver one source event to the live subscribers
      fn deliver(st: &Step, live: &mut Vec<bool>, taken: &mut Vec<usize>, limit: &[Option<usize>], expect: &mut Vec<Vec<Ev>>) {
        for i in 0..live.len() {
          if !live[i] {
            continue;
          }
          match st {
            Step::N(x) => {
              expect[i].push(Ev::Next(Val::Int(*x)));
              taken[i] += 1;
              if limit[i].map_or(false, |l| taken[i] >= l) {
                expect[i].push(Ev::Complete);
                live[i] = false;
              }
            }
            Step::E(e) => {
              expect[i].push(Ev::Error(*e));
              live[i] = false;
            }
            Step::C => {
              expect[i].push(Ev::Complete);
              live[i] = false;
            }
          }
        }
      }
      for op in &ops {
        let mut burst = false;
        match op {
          Op::Sub(i) => {
            if !ever[*i] {
              ever[*i] = true;
              live[*i] = true;
              if kind == "replay" {
                for x in history_items.clone() {
                  if live[*i] {
                    expect[*i].push(Ev::Next(Val::Int(x)));
                    taken[*i] += 1;
                    if limit[*i].map_or(false, |l| taken[*i] >= l) {
                      expect[*i].push(Ev::Complete);
                      live[*i] = false;
                    }
                  }
                }
                if live[*i] {
                  if let Some(t) = &stored_terminal {
                    expect[*i].push(t.clone());
                    live[*i] = false;
                  }
                }
              }
              if kind != "publish" && !connected && !dropped && !src_done && live[*i] {
                connected = true;
                exp_src_subs = 1;
                burst = cold;
              } else if kind != "publish" && dropped {
                weak = true; // whether it reconnects is not asserted
              }
            }
          }
          Op::Unsub(i) => {
            live[*i] = false;
          }
          Op::Connect => {
            if kind == "publish" && (!connect_used || (!cold && !connected && !src_done)) {
              connect_used = true;
              connected = true;
              exp_src_subs = 1;
              burst = cold;
            }
          }
          Op::Disconnect => {
            if kind == "publish" && connect_used {
              connected = false;
            }
          }
          Op::Emit => {
            if !cold && pos < script.len() {
              let st = script[pos].clone();
              pos += 1;
              if connected && !src_done {
                if let Step::N(x) = &st {
                  history_items.push(*x);
                } else {
                  src_done = true;
                  stored_terminal = Some(match &st {
                    Step::E(e) => Ev::Error(*e),
                    _ => Ev::Complete,
                  });
                }
                deliver(&st, &mut live, &mut taken, &limit, &mut expect);
              }
            }
          }
        }
        if burst {
          // a cold source plays its whole script inside connect / the first subscribe; a polite
          // one stops as soon as nobody is left (ref_count / replay)
          for st in &script {
            // (replay hands the items of a synchronous burst to its first subscriber only once the
            // burst is over, so nobody can leave during it)
            if kind == "ref_count" && !live.iter().any(|x| *x) && src_mode == "cold-polite" {
              break;
            }
            if let Step::N(x) = st {
              history_items.push(*x);
            } else {
              src_done = true;
              stored_terminal = Some(match st {
                Step::E(e) => Ev::Error(*e),
                _ => Ev::Complete,
              });
            }
            deliver(st, &mut live, &mut taken, &limit, &mut expect);
          }
        }
        // the nested subscription: when i has just been handed its terminal, j joins (replay over a
        // source that has ended: the whole history, then the stored terminal; no new connection)
        if let Some((ni, nj)) = nested {
          if !ever[nj] && expect[ni].last().map_or(false, |e| e.is_terminal()) {
            ever[nj] = true;
            for x in history_items.clone() {
              expect[nj].push(Ev::Next(Val::Int(x)));
            }
            if let Some(t) = &stored_terminal {
              expect[nj].push(t.clone());
            }
          }
        }
        // ref_count / replay: the last subscriber leaving stops the source
        if kind != "publish" && connected && !live.iter().any(|x| *x) {
          connected = false;
          dropped = true;
        }
        exp_live.push(if src_done { Some(0).filter(|_| !cold) } else if connected { Some(1) } else { Some(0) });
      }
      // ---- compare
      for i in 0..nsub {
        let got: Vec<Ev> = recs[i].events().into_iter().map(|e| e.ev).collect();
        history.push(format!("subscriber {} ({}): got [{}] expected [{}]{}", i, skinds[i], show(&got), show(&expect[i]), if weak { " (deliveries not asserted after the count dropped to zero)" } else { "" }));
        if let Some(b) = contract_breach(&recs[i].events()) {
          v.push(Violation::new("event-after-terminal", blame, format!("subscriber {}: {}", i, b)));
        } else if !weak && got != expect[i] {
          let class = if got.len() < expect[i].len() && expect[i].starts_with(&got) { "delivery-missing" } else if got.len() > expect[i].len() && got.starts_with(&expect[i]) { "delivery-extra" } else { "delivery-differs" };
          v.push(Violation::new(class, blame, format!("{} over a {} source {:?}, subscriber {} ({}), history [{}]: must deliver [{}], delivered [{}]", kind, src_mode, script.iter().map(|s| s.show()).collect::<Vec<_>>(), i, skinds[i], ops_s, show(&expect[i]), show(&got))));
        }
      }
      for (n, (_, s)) in snaps.iter().enumerate() {
        if s.src_live > 1 {
          v.push(Violation::new("two-source-subscriptions", blame, format!("after step {} ({:?}) of [{}] the source has {} live subscriptions", n, ops[n], ops_s, s.src_live)));
          break;
        }
        if weak {
          continue;
        }
        if kind == "publish" && !connect_used_before(&ops, n) && s.src_subscriptions != 0 {
          v.push(Violation::new("subscribed-before-connect", blame, format!("after step {} ({:?}) of [{}] publish has subscribed its source although connect() was not called", n, ops[n], ops_s)));
          break;
        }
        if let Some(want) = exp_live.get(n).copied().flatten() {
          if s.src_live != want {
            let class = if s.src_live > want { "source-not-stopped" } else { "source-not-subscribed" };
            v.push(Violation::new(class, blame, format!("{} over a {} source: after step {} ({:?}) of [{}] the source has {} live subscription(s), expected {}", kind, src_mode, n, ops[n], ops_s, s.src_live, want)));
            break;
          }
        }
      }
      let _ = exp_src_subs;
      // a polite cold source must stop emitting once the last subscriber of ref_count/replay left
      if src_mode == "cold-polite" && kind != "publish" && !weak {
        let total: usize = emits.len();
        let modelled = history_items.len() + stored_terminal.is_some() as usize;
        if total > modelled {
          v.push(Violation::new("source-not-stopped", blame, format!("{}: the cold source emitted {} events although the last subscriber had left after {} (history [{}])", kind, total, modelled, ops_s)));
        }
      }
    }
    let mut fp = 0u64;
    for h in &history {
      fp = fp.wrapping_mul(0x100000001B3) ^ fnv(h);
    }
    let reach = vec![
      ("c13-cold-source-burst-inside-connect", cold as u64),
      ("c13-subscriber-leaves-during-burst", (cold && skinds.iter().any(|k| k.starts_with("take"))) as u64),
      ("c13-last-subscriber-left", ops.iter().any(|o| matches!(o, Op::Unsub(_))) as u64),
    ];
    RunOut { res, violations: v, fingerprint: fp, invalid: false, reach, history }
  }
}

fn connect_used_before(ops: &[Op], n: usize) -> bool {
  ops[..=n].iter().any(|o| *o == Op::Connect)
}

// ================================================================================================
// threaded part: the first subscribers of ref_count()/replay() arrive concurrently, later all
// leave concurrently

pub struct C13Thr;

impl Family for C13Thr {
  fn name(&self) -> &'static str {
    "c13-connectables-concurrent-subscribers"
  }
  fn threaded(&self) -> bool {
    true
  }
  fn gen(&self, rng: &mut Rng, _tier: Tier) -> Json {
    let n = rng.range(2, 4);
    // some subscribers stay while the others leave and the source goes on emitting
    let emit_during_leave = rng.below(2) == 0;
    // the newcomer is only judged while somebody stays; without a newcomer everybody may leave
    // while the source is still emitting
    let with_late_joiner = emit_during_leave && rng.below(2) == 0;
    Json::obj(vec![
      ("kind", Json::str(*rng.pick(&["ref_count", "replay"]))),
      ("waits", Json::Arr((0..n).map(|_| Json::Int(rng.below(6) as i64)).collect())),
      ("leave_waits", Json::Arr((0..n).map(|_| Json::Int(rng.below(6) as i64)).collect())),
      ("share_observable", Json::Bool(rng.below(2) == 0)),
      ("stay", Json::Arr((0..n).map(|k| Json::Bool(emit_during_leave && (rng.below(2) == 0 || (k == 0 && with_late_joiner)))).collect())),
      ("emit_during_leave", Json::Bool(emit_during_leave)),
      ("emitter_wait", Json::Int(rng.below(8) as i64)),
      // the emitter ends with a terminal; a further subscriber arrives while the emitter is at work
      ("emitter_terminal", Json::str(if emit_during_leave { *rng.pick(&["none", "complete", "error", "error"]) } else { "none" })),
      ("late_joiner_wait", Json::Int(if with_late_joiner { rng.below(10) as i64 } else { -1 })),
    ])
  }
  fn exec(&self, w: &Json, cfg: RunCfg) -> RunOut {
    let kind = w.s("kind");
    if kind != "ref_count" && kind != "replay" {
      return RunOut::invalid();
    }
    let waits: Vec<i64> = w.a("waits").iter().filter_map(|x| x.as_i64()).collect();
    let mut leave: Vec<i64> = w.a("leave_waits").iter().filter_map(|x| x.as_i64()).collect();
    let n = waits.len();
    if n < 1 || n > 4 || waits.iter().chain(leave.iter()).any(|x| *x < 0 || *x > 30) {
      return RunOut::invalid();
    }
    leave.resize(n, 0);
    let share = w.b("share_observable");
    let emit_during_leave = w.get("emit_during_leave").is_some() && w.b("emit_during_leave");
    let mut stay: Vec<bool> = w.a("stay").iter().map(|x| x.as_bool().unwrap_or(false)).collect();
    stay.resize(n, false);
    if !emit_during_leave {
      stay.iter_mut().for_each(|s| *s = false);
    }
    let emitter_wait = if w.get("emitter_wait").is_some() { w.i("emitter_wait").clamp(0, 30) } else { 0 };
    let emitter_terminal: Option<Step> = match w.get("emitter_terminal").and_then(|x| x.as_str()) {
      Some("complete") if emit_during_leave => Some(Step::C),
      Some("error") if emit_during_leave => Some(Step::E(9)),
      _ => None,
    };
    let late_wait = if emit_during_leave && w.get("late_joiner_wait").is_some() { w.i("late_joiner_wait").clamp(-1, 30) } else { -1 };
    let rec_late = Recorder::new();
    let (rec_late2, et2) = (rec_late.clone(), emitter_terminal.clone());
    let stay2 = stay.clone();
    let recs: Vec<Recorder> = (0..n).map(|_| Recorder::new()).collect();
    let src_log = Arc::new(Mutex::new(SrcLog::default()));
    // (after all subscribed: subscriptions, live), (after all left: live)
    let snap: Arc<Mutex<Vec<(usize, usize)>>> = Arc::new(Mutex::new(Vec::new()));
    let (recs2, sl, snap2, kind2) = (recs.clone(), src_log.clone(), snap.clone(), kind.clone());
    let res = rt::run(cfg, move || {
      let mut hot = HotSource::new();
      hot.log = sl.clone();
      let source = hot.observable();
      let conn = Arc::new(if kind2 == "ref_count" { Conn::RefCount(source.ref_count()) } else { Conn::Replay(source.replay()) });
      let shared_obs = conn.observable();
      let subs: Arc<Mutex<Vec<Option<Subscription<'static>>>>> = Arc::new(Mutex::new(vec![None; recs2.len()]));
      let mut hs = Vec::new();
      for i in 0..recs2.len() {
        let (conn, rec, subs, so, wt) = (conn.clone(), recs2[i].clone(), subs.clone(), shared_obs.clone(), waits[i]);
        hs.push(rt::spawn_harness("subscriber", move || {
          for _ in 0..wt {
            rt::probe("c13-subscriber-wait");
          }
          let o = if share { so } else { conn.observable() };
          let s = rec.subscribe(&o);
          subs.lock().unwrap()[i] = Some(s);
        }));
      }
      for h in hs {
        let _ = h.join();
      }
      let live = |hot: &HotSource| (0..hot.n_subscribed()).filter(|k| hot.is_subscribed(*k) == Some(true)).count();
      snap2.lock().unwrap().push((hot.n_subscribed(), live(&hot)));
      hot.step_all(&Step::N(10));
      hot.step_all(&Step::N(11));
      let mut hs = Vec::new();
      if emit_during_leave {
        let hot = hot.clone();
        hs.push(rt::spawn_harness("emitter", move || {
          for _ in 0..emitter_wait {
            rt::probe("c13-emitter-wait");
          }
          hot.step_all(&Step::N(12));
          hot.step_all(&Step::N(13));
          if let Some(t) = &et2 {
            hot.step_all(t);
          }
        }));
      }
      let late_sub: Arc<Mutex<Option<Subscription<'static>>>> = Arc::new(Mutex::new(None));
      let late_sub2 = late_sub.clone();
      if late_wait >= 0 {
        let (conn, so, rec) = (conn.clone(), shared_obs.clone(), rec_late2.clone());
        hs.push(rt::spawn_harness("late-joiner", move || {
          for _ in 0..late_wait {
            rt::probe("c13-late-joiner-wait");
          }
          let o = if share { so } else { conn.observable() };
          let s = rec.subscribe(&o);
          *late_sub2.lock().unwrap() = Some(s);
        }));
      }
      for i in 0..recs2.len() {
        if stay2[i] {
          continue;
        }
        let (subs, wt) = (subs.clone(), leave[i]);
        hs.push(rt::spawn_harness("leaver", move || {
          for _ in 0..wt {
            rt::probe("c13-leaver-wait");
          }
          let s = subs.lock().unwrap()[i].clone();
          if let Some(s) = s {
            s.unsubscribe();
          }
        }));
      }
      for h in hs {
        let _ = h.join();
      }
      // the ones that stayed leave at the end, the late joiner too
      if let Some(s) = late_sub.lock().unwrap().take() {
        s.unsubscribe();
      }
      for i in 0..recs2.len() {
        if stay2[i] {
          let s = subs.lock().unwrap()[i].clone();
          if let Some(s) = s {
            s.unsubscribe();
          }
        }
      }
      snap2.lock().unwrap().push((hot.n_subscribed(), live(&hot)));
    });
    let blame = kind.as_str();
    let mut v = Vec::new();
    let mut history = Vec::new();
    let snap = snap.lock().unwrap().clone();
    if let Some(o) = outcome_violation(&res, blame) {
      v.push(o);
    } else {
      for (i, r) in recs.iter().enumerate() {
        let got: Vec<Ev> = r.events().into_iter().map(|e| e.ev).collect();
        history.push(format!("subscriber {}: {}", i, got.iter().map(|e| e.show()).collect::<Vec<_>>().join(" ")));
        let mut all: Vec<Ev> = if emit_during_leave { vec![10, 11, 12, 13] } else { vec![10, 11] }.into_iter().map(|x| Ev::Next(Val::Int(x))).collect();
        match &emitter_terminal {
          Some(Step::C) => all.push(Ev::Complete),
          Some(Step::E(e)) => all.push(Ev::Error(*e)),
          _ => {}
        }
        // one that stayed sees everything; one that left while 12, 13 were emitted sees a prefix
        // a leaver whose unsubscribe call is in progress may miss items and still be handed the
        // terminal (the callbacks are released one after the other): its items are a prefix, an
        // optional terminal is the emitter's and comes last
        let ok = if stay[i] || !emit_during_leave {
          got == all
        } else {
          let items: Vec<Ev> = got.iter().filter(|e| !e.is_terminal()).cloned().collect();
          let all_items: Vec<Ev> = all.iter().filter(|e| !e.is_terminal()).cloned().collect();
          let terms: Vec<&Ev> = got.iter().filter(|e| e.is_terminal()).collect();
          items.len() >= 2 && all_items.starts_with(&items) && terms.len() <= 1 && terms.first().map_or(true, |t| Some(*t) == all.last() && got.last() == Some(*t))
        };
        if !ok {
          v.push(Violation::new(
            "delivery-differs",
            blame,
            format!(
              "{} subscribers arrived concurrently, then the source emitted 10, 11{}; subscriber {} ({}) received [{}]",
              n,
              if emit_during_leave { " and, while the others left, 12, 13" } else { "" },
              i,
              if stay[i] { "stayed" } else { "left" },
              got.iter().map(|e| e.show()).collect::<Vec<_>>().join(" ")
            ),
          ));
        }
      }
      // judged only if somebody stays throughout: once the count has dropped to zero the connection is
      // gone and what a newcomer gets is not asserted (DESIGN 4.7)
      if late_wait >= 0 && stay.iter().any(|s| *s) {
        // the subscriber that arrives while the emitter is at work: replay owes it the complete
        // sequence from the beginning (each item once, in order, then the terminal if there was
        // one); ref_count a gap-free rest of it
        let got: Vec<Ev> = rec_late.events().into_iter().map(|e| e.ev).collect();
        history.push(format!("late joiner: {}", got.iter().map(|e| e.show()).collect::<Vec<_>>().join(" ")));
        let mut all: Vec<Ev> = vec![10, 11, 12, 13].into_iter().map(|x| Ev::Next(Val::Int(x))).collect();
        match &emitter_terminal {
          Some(Step::C) => all.push(Ev::Complete),
          Some(Step::E(e)) => all.push(Ev::Error(*e)),
          _ => {}
        }
        let ok = if kind == "replay" {
          // after a terminal the connection has ended: a joiner that comes later may find it gone
          // (reconnection is not asserted) - then it sees nothing; otherwise the whole sequence
          got == all || (emitter_terminal.is_some() && got.is_empty())
        } else {
          // ref_count: a gap-free rest of the sequence (possibly nothing)
          all.ends_with(&got)
        };
        if !ok {
          v.push(Violation::new(
            "delivery-differs",
            blame,
            format!("a subscriber arrived while the source emitted 12, 13{}; it received [{}]", match &emitter_terminal { Some(t) => format!(", {}", t.show()), None => String::new() }, got.iter().map(|e| e.show()).collect::<Vec<_>>().join(" ")),
          ));
        }
      }
      if let Some((subs, live)) = snap.first() {
        history.push(format!("after all subscribed: {} source subscriptions, {} live", subs, live));
        if *subs != 1 || *live != 1 {
          v.push(Violation::new(if *live > 1 { "two-source-subscriptions" } else { "source-not-subscribed" }, blame, format!("{} subscribers arrived concurrently: the source was subscribed {} time(s), {} live (expected exactly one)", n, subs, live)));
        }
      }
      if let Some((_, live)) = snap.get(1) {
        history.push(format!("after all left: {} live", live));
        if *live != 0 {
          v.push(Violation::new("source-not-stopped", blame, format!("all {} subscribers left concurrently, yet the source still has {} live subscription(s)", n, live)));
        }
      }
    }
    let mut fp = 0u64;
    for h in &history {
      fp = fp.wrapping_mul(0x100000001B3) ^ fnv(h);
    }
    RunOut { res, violations: v, fingerprint: fp, invalid: false, reach: vec![], history }
  }
}


// ================================================================================================
// the first subscriber ends while it is still being registered

/// `source.ref_count()/replay().observable().take_until(trigger)` over a cold source that emits
/// synchronously inside the first subscribe and fires the trigger itself at some position: the
/// first subscriber ends while the connectable is still registering it. A second subscriber may
/// come and go afterwards. Judged: at most one source subscription; once every subscriber has
/// left, the source is stopped (its observer sees is_subscribed()==false); the first subscriber
/// gets a prefix of the items emitted before the trigger, then exactly one complete.
pub struct C13Reg;

impl Family for C13Reg {
  fn name(&self) -> &'static str {
    "c13-first-subscriber-ends-while-registering"
  }
  fn threaded(&self) -> bool {
    false
  }
  fn gen(&self, rng: &mut Rng, _tier: Tier) -> Json {
    let n = rng.range(0, 4) as i64;
    Json::obj(vec![
      ("kind", Json::str(*rng.pick(&["ref_count", "replay"]))),
      ("n_items", Json::Int(n)),
      ("fire_after", Json::Int(rng.below(n as u64 + 1) as i64)),
      ("source_ends", Json::str(*rng.pick(&["open", "open", "complete", "error"]))),
      ("polite", Json::Bool(rng.below(2) == 0)),
      ("second_subscriber", Json::Bool(rng.below(2) == 0)),
      ("share_observable", Json::Bool(rng.below(2) == 0)),
      // `src.ref_count().observable()` style: the connectable value itself is dropped at once
      ("drop_handle", Json::Bool(rng.below(2) == 0)),
      // the first subscriber is not cut by the source: it leaves by an ordinary unsubscribe at the end
      ("fire", Json::Bool(rng.below(4) != 0)),
    ])
  }
  fn exec(&self, w: &Json, cfg: RunCfg) -> RunOut {
    let kind = w.s("kind");
    let ends = w.s("source_ends");
    let (n, fire_after) = (w.i("n_items"), w.i("fire_after"));
    if !["ref_count", "replay"].contains(&kind.as_str()) || !["open", "complete", "error"].contains(&ends.as_str()) || n < 0 || n > 6 || fire_after < 0 || fire_after > n {
      return RunOut::invalid();
    }
    let (polite, second, share) = (w.b("polite"), w.b("second_subscriber"), w.b("share_observable"));
    let drop_handle = share && w.get("drop_handle").is_some() && w.b("drop_handle");
    let fire = w.get("fire").is_none() || w.b("fire");
    let (rec_a, rec_b) = (Recorder::new(), Recorder::new());
    // (source subscriptions, source observer still subscribed after everybody left)
    let snap: Arc<Mutex<(usize, bool)>> = Arc::new(Mutex::new((0, false)));
    let (ra, rb, snap2, kind2, ends2) = (rec_a.clone(), rec_b.clone(), snap.clone(), kind.clone(), ends.clone());
    let res = rt::run(cfg, move || {
      let trigger = HotSource::new();
      let subs_made = Arc::new(Mutex::new(0usize));
      let src_obs: Arc<Mutex<Vec<Observer<'static, Val>>>> = Arc::new(Mutex::new(Vec::new()));
      let (trig2, sm2, so2, ends3) = (trigger.clone(), subs_made.clone(), src_obs.clone(), ends2.clone());
      let source: Observable<'static, Val> = Observable::create(move |s: Observer<'static, Val>| {
        *sm2.lock().unwrap() += 1;
        so2.lock().unwrap().push(s.clone());
        for i in 0..n {
          if fire && i == fire_after {
            trig2.step_all(&Step::N(1));
          }
          if polite && !s.is_subscribed() {
            return;
          }
          s.next(Val::Int(20 + i));
        }
        if fire && fire_after == n {
          trig2.step_all(&Step::N(1));
        }
        match ends3.as_str() {
          "complete" => s.complete(),
          "error" => s.error(mk_err(4)),
          _ => {}
        }
      });
      let conn = if kind2 == "ref_count" { Conn::RefCount(source.ref_count()) } else { Conn::Replay(source.replay()) };
      let shared = conn.observable();
      let mut conn = Some(conn);
      if drop_handle {
        conn = None;
      }
      let get = |c: &Option<Conn>| match c {
        Some(c) if !share => c.observable(),
        _ => shared.clone(),
      };
      let sub_a = ra.subscribe(&get(&conn).take_until(trigger.observable()));
      if second {
        let sub_b = rb.subscribe(&get(&conn));
        sub_b.unsubscribe();
      }
      sub_a.unsubscribe();
      let alive = src_obs.lock().unwrap().iter().any(|o| o.is_subscribed());
      *snap2.lock().unwrap() = (*subs_made.lock().unwrap(), alive);
    });
    let blame = kind.as_str();
    let mut v = Vec::new();
    let a: Vec<Ev> = rec_a.events().into_iter().map(|e| e.ev).collect();
    let b: Vec<Ev> = rec_b.events().into_iter().map(|e| e.ev).collect();
    let show = |x: &[Ev]| x.iter().map(|e| e.show()).collect::<Vec<_>>().join(" ");
    let (subs_made, alive) = *snap.lock().unwrap();
    let what = format!("{} over a cold source of {} item(s) that fires the take_until trigger of its first subscriber after item {} and then {}", kind, n, fire_after, match ends.as_str() { "open" => "stays open", "complete" => "completes", _ => "fails" });
    let history = vec![what.clone(), format!("first subscriber: [{}]", show(&a)), format!("second subscriber: [{}]", show(&b)), format!("source subscriptions: {}, still subscribed after everybody left: {}", subs_made, alive)];
    if let Some(o) = outcome_violation(&res, blame) {
      v.push(o);
    } else {
      if subs_made > 1 {
        v.push(Violation::new("two-source-subscriptions", blame, format!("{}: the source was subscribed {} times", what, subs_made)));
      }
      if alive {
        v.push(Violation::new("source-not-stopped", blame, format!("{}: every subscriber has left, yet the source's observer still sees is_subscribed()==true (first subscriber saw [{}])", what, show(&a))));
      }
      // first subscriber: items emitted before the trigger (a prefix of them), then one complete;
      // without the trigger: everything the source emitted, and its terminal if it has one
      let items: Vec<Ev> = a.iter().filter(|e| !e.is_terminal()).cloned().collect();
      let terms = a.iter().filter(|e| e.is_terminal()).count();
      if !fire {
        let mut all: Vec<Ev> = (0..n).map(|i| Ev::Next(Val::Int(20 + i))).collect();
        match ends.as_str() {
          "complete" => all.push(Ev::Complete),
          "error" => all.push(Ev::Error(4)),
          _ => {}
        }
        if a != all {
          v.push(Violation::new("delivery-differs", blame, format!("{} (trigger never fired): its first subscriber received [{}]", what, show(&a))));
        }
      } else if {
        let before: Vec<Ev> = (0..fire_after).map(|i| Ev::Next(Val::Int(20 + i))).collect();
        !before.starts_with(&items) || terms != 1 || a.last() != Some(&Ev::Complete)
      } {
        v.push(Violation::new("delivery-differs", blame, format!("{}: its first subscriber received [{}]", what, show(&a))));
      }
    }
    RunOut { fingerprint: crate::seq::fp(&history), res, violations: v, invalid: false, reach: vec![], history }
  }
}

// ================================================================================================
// replay() over a cold source that emits synchronously inside the connect, while further
// subscribers arrive from other threads: one source subscription, everybody the whole sequence once

pub struct C13ThrCold;

impl Family for C13ThrCold {
  fn name(&self) -> &'static str {
    "c13-replay-cold-source-concurrent-subscribers"
  }
  fn threaded(&self) -> bool {
    true
  }
  fn gen(&self, rng: &mut Rng, _tier: Tier) -> Json {
    let n = rng.range(2, 3);
    Json::obj(vec![
      ("waits", Json::Arr((0..n).map(|_| Json::Int(rng.below(8) as i64)).collect())),
      ("share_observable", Json::Bool(rng.below(2) == 0)),
      ("n_items", Json::Int(rng.range(1, 3) as i64)),
      ("terminal", Json::str(*rng.pick(&["complete", "complete", "error", "none"]))),
      // scheduling points the source lets pass between two of its steps
      ("source_pause", Json::Int(rng.below(4) as i64)),
    ])
  }
  fn exec(&self, w: &Json, cfg: RunCfg) -> RunOut {
    let waits: Vec<i64> = w.a("waits").iter().filter_map(|x| x.as_i64()).collect();
    let n = waits.len();
    let n_items = w.i("n_items");
    let pause = w.i("source_pause");
    if n < 1 || n > 4 || waits.iter().any(|x| *x < 0 || *x > 30) || n_items < 0 || n_items > 5 || pause < 0 || pause > 10 {
      return RunOut::invalid();
    }
    let share = w.b("share_observable");
    let mut script: Vec<Step> = (0..n_items).map(|i| Step::N(10 + i)).collect();
    match w.s("terminal").as_str() {
      "complete" => script.push(Step::C),
      "error" => script.push(Step::E(4)),
      "none" => {}
      _ => return RunOut::invalid(),
    }
    let recs: Vec<Recorder> = (0..n).map(|_| Recorder::new()).collect();
    let src_log = Arc::new(Mutex::new(SrcLog::default()));
    let (recs2, sl, sc) = (recs.clone(), src_log.clone(), script.clone());
    let res = rt::run(cfg, move || {
      let (log, script) = (sl.clone(), sc.clone());
      let source: Observable<'static, Val> = Observable::create(move |s: Observer<'static, Val>| {
        let k = {
          let mut l = log.lock().unwrap();
          l.subscriptions.push((rt::seq(), rt::task_id().unwrap_or(0)));
          l.subscriptions.len() - 1
        };
        for st in &script {
          for _ in 0..pause {
            rt::probe("c13-cold-source-pause");
          }
          emit(&s, k, st, &log, &None);
        }
        for _ in 0..pause {
          rt::probe("c13-cold-source-pause");
        }
      });
      let conn = Arc::new(source.replay());
      let shared_obs = conn.observable();
      let keep: Arc<Mutex<Vec<Subscription<'static>>>> = Arc::new(Mutex::new(Vec::new()));
      let mut hs = Vec::new();
      for i in 0..recs2.len() {
        let (conn, rec, so, wt, keep) = (conn.clone(), recs2[i].clone(), shared_obs.clone(), waits[i], keep.clone());
        hs.push(rt::spawn_harness("subscriber", move || {
          for _ in 0..wt {
            rt::probe("c13-subscriber-wait");
          }
          let o = if share { so } else { conn.observable() };
          let s = rec.subscribe(&o);
          keep.lock().unwrap().push(s);
        }));
      }
      for h in hs {
        let _ = h.join();
      }
      rt::quiesce();
      let subs: Vec<_> = std::mem::take(&mut *keep.lock().unwrap());
      for s in subs {
        s.unsubscribe();
      }
    });
    let blame = "replay";
    let mut v = Vec::new();
    let mut history = Vec::new();
    let want: Vec<Ev> = script
      .iter()
      .map(|s| match s {
        Step::N(i) => Ev::Next(Val::Int(*i)),
        Step::E(e) => Ev::Error(*e),
        Step::C => Ev::Complete,
      })
      .collect();
    let show = |x: &[Ev]| x.iter().map(|e| e.show()).collect::<Vec<_>>().join(" ");
    let nsubs = src_log.lock().unwrap().subscriptions.len();
    history.push(format!("source subscribed {} time(s); script [{}]", nsubs, show(&want)));
    for (i, r) in recs.iter().enumerate() {
      history.push(format!("subscriber {}: {}", i, r.shown()));
    }
    if let Some(o) = outcome_violation(&res, blame) {
      v.push(o);
    } else {
      if nsubs != 1 {
        v.push(Violation::new("two-source-subscriptions", blame, format!("replay() over a cold source with {} subscribers arriving concurrently subscribed its source {} time(s)", n, nsubs)));
      }
      for (i, r) in recs.iter().enumerate() {
        let got: Vec<Ev> = r.events().into_iter().map(|e| e.ev).collect();
        if let Some(b) = contract_breach(&r.events()) {
          v.push(Violation::new("event-after-terminal", blame, format!("subscriber {}: {}", i, b)));
        } else if got != want {
          let class = if got.len() < want.len() { "delivery-missing" } else { "delivery-extra" };
          v.push(Violation::new(class, blame, format!("replay() over a cold source [{}]: subscriber {} must get the whole sequence once, got [{}]", show(&want), i, show(&got))));
        }
      }
    }
    let mut fp = 0u64;
    for h in &history {
      fp = fp.wrapping_mul(0x100000001B3) ^ fnv(h);
    }
    RunOut { res, violations: v, fingerprint: fp, invalid: false, reach: vec![], history }
  }
}

//! C14 - each subscribe() runs an independent pipeline (DESIGN.md 5.14)
//!
//! Self-differential oracle: one pipeline value is subscribed 2..3 times (sequentially,
//! interleaved on hot sources, nested from inside a callback); subscriber k's record must equal
//! the record it gets when the same AST is built afresh and subscribed once, driven by the same
//! steps. No operator semantics are needed.

use crate::c01::{blame_of, shrink_pipeline_field};
use crate::common::*;
use crate::json::Json;
use crate::pipe;
use crate::rec::*;
use crate::seq::{gen_script, Mode};
use crate::val::*;
use another_rxrust::prelude::*;
use rxsim_rt as rt;
use rxsim_rt::prng::Rng;
use rxsim_rt::RunCfg;
use std::sync::{Arc, Mutex};

pub struct C14;

const OPS: &[&str] = &[
  "map", "filter", "take", "skip", "take_last", "skip_last", "take_while", "skip_while", "first", "last", "element_at",
  "distinct_until_changed", "scan", "reduce", "count", "sum", "sum_and_count", "min", "max", "all", "contains",
  "default_if_empty", "ignore_elements", "start_with", "buffer_with_count", "window_with_count", "group_by", "materialize",
  "dematerialize", "mat_demat", "tap", "map_to_any", "flat_map", "on_error_resume_next", "retry", "retry_when",
];

#[derive(Clone)]
struct Spec {
  pipeline: Json,
  /// per source: mode + script per pipeline subscription
  sources: Vec<(Mode, Vec<Vec<Step>>)>,
  nsubs: usize,
  /// actions: [k, -1] = subscribe subscriber k; [k, i] = next step of source i for subscriber k
  actions: Vec<(usize, i64)>,
  /// subscriber `nest.0` is subscribed from inside subscriber `nest.1`'s first next callback
  nest: Option<(usize, usize)>,
}

fn parse(w: &Json) -> Option<Spec> {
  let mut sources = Vec::new();
  for s in w.a("sources") {
    let mode = match s.s("mode").as_str() {
      "hot" => Mode::Hot,
      "cold" => Mode::Cold,
      _ => return None,
    };
    let mut scripts = Vec::new();
    for sc in s.a("scripts") {
      let x = script_from_json(&sc)?;
      if x.len() > 10 {
        return None;
      }
      scripts.push(x);
    }
    if scripts.is_empty() {
      return None;
    }
    sources.push((mode, scripts));
  }
  let nsubs = w.i("nsubs");
  if !(1..=3).contains(&nsubs) || sources.len() > 3 {
    return None;
  }
  let mut actions = Vec::new();
  for a in w.a("actions") {
    let v = a.as_arr()?;
    let k = v.first()?.as_i64()?;
    let i = v.get(1)?.as_i64()?;
    if k < 0 || k >= nsubs || i < -1 || i >= sources.len() as i64 {
      return None;
    }
    actions.push((k as usize, i));
  }
  if actions.len() > 80 {
    return None;
  }
  // every subscriber has its own subscribe action, before any of its steps
  for k in 0..nsubs as usize {
    let first = actions.iter().position(|a| a.0 == k);
    match first {
      Some(p) if actions[p].1 == -1 => {}
      _ => return None,
    }
  }
  let nest = match w.get("nest") {
    Some(Json::Arr(v)) if v.len() == 2 => {
      let (a, b) = (v[0].as_i64()?, v[1].as_i64()?);
      if a < 0 || b < 0 || a >= nsubs || b >= nsubs || a == b {
        return None;
      }
      Some((a as usize, b as usize))
    }
    _ => None,
  };
  Some(Spec { pipeline: w.get("pipeline")?.clone(), sources, nsubs: nsubs as usize, actions, nest })
}

struct RunRec {
  res: rt::RunResult,
  built: bool,
  records: Vec<Vec<Ev>>,
  taps: (u64, u64, u64),
}

/// Runs the scenario restricted to the subscribers in `only` (all of them = the shared run).
fn drive(spec: &Spec, only: Option<usize>, cfg: RunCfg) -> RunRec {
  let recs: Vec<Recorder> = (0..spec.nsubs).map(|_| Recorder::new()).collect();
  let out: Arc<Mutex<(bool, (u64, u64, u64))>> = Arc::new(Mutex::new((false, (0, 0, 0))));
  let (spec2, recs2, out2) = (spec.clone(), recs.clone(), out.clone());
  let res = rt::run(cfg, move || {
    let spec = spec2;
    let hots: Vec<Option<HotSource>> = spec.sources.iter().map(|(m, _)| if *m == Mode::Hot { Some(HotSource::new()) } else { None }).collect();
    let obs: Vec<Observable<'static, Val>> = spec
      .sources
      .iter()
      .enumerate()
      .map(|(i, (m, scripts))| match m {
        Mode::Hot => hots[i].as_ref().unwrap().observable(),
        _ => cold_source(vec![scripts[0].clone()], Arc::new(Mutex::new(SrcLog::default())), None, false),
      })
      .collect();
    let ctx = pipe::Ctx::new(obs);
    let o = match pipe::build(&spec.pipeline, &ctx) {
      Some(o) => o,
      None => return,
    };
    out2.lock().unwrap().0 = true;
    // owner[i][n] = subscriber on whose behalf observer n of source i was created
    let owners: Arc<Mutex<Vec<Vec<usize>>>> = Arc::new(Mutex::new(vec![Vec::new(); spec.sources.len()]));
    let claim = {
      let (owners, hots) = (owners.clone(), hots.clone());
      move |k: usize| {
        let mut ow = owners.lock().unwrap();
        for (i, h) in hots.iter().enumerate() {
          if let Some(h) = h {
            while ow[i].len() < h.n_subscribed() {
              ow[i].push(k);
            }
          }
        }
      }
    };
    let pos: Arc<Mutex<Vec<Vec<usize>>>> = Arc::new(Mutex::new(vec![vec![0; spec.nsubs]; spec.sources.len()]));
    let subs: Arc<Mutex<Vec<Option<Subscription<'static>>>>> = Arc::new(Mutex::new(vec![None; spec.nsubs]));
    let active = |k: usize| only.map_or(true, |x| x == k);
    let mut recs = recs2;
    // nested subscription: subscriber a is subscribed inside b's first next callback
    if let Some((a, b)) = spec.nest {
      if active(a) && active(b) {
        let (o2, ra, subs2, claim2) = (o.clone(), recs[a].clone(), subs.clone(), claim.clone());
        let done = Arc::new(Mutex::new(false));
        recs[b].hook = Some(Arc::new(move |ev: &Ev| {
          if matches!(ev, Ev::Next(_)) {
            let mut d = done.lock().unwrap();
            if !*d && subs2.lock().unwrap()[a].is_none() {
              *d = true;
              drop(d);
              claim2(b);
              let s = ra.subscribe(&o2);
              claim2(a);
              subs2.lock().unwrap()[a] = Some(s);
            }
          }
        }));
      }
    }
    for (k, i) in &spec.actions {
      if !active(*k) {
        continue;
      }
      if *i < 0 {
        if subs.lock().unwrap()[*k].is_some() {
          continue;
        }
        let s = recs[*k].subscribe(&o);
        claim(*k);
        subs.lock().unwrap()[*k] = Some(s);
      } else {
        let i = *i as usize;
        if let Some(h) = &hots[i] {
          let script = &spec.sources[i].1[(*k).min(spec.sources[i].1.len() - 1)];
          let st = {
            let mut p = pos.lock().unwrap();
            if p[i][*k] < script.len() {
              p[i][*k] += 1;
              Some(script[p[i][*k] - 1].clone())
            } else {
              None
            }
          };
          if let Some(st) = st {
            let mine: Vec<usize> = owners.lock().unwrap()[i].iter().enumerate().filter(|(_, o)| **o == *k).map(|(n, _)| n).collect();
            for n in mine {
              h.step_sub(n, &st);
              claim(*k);
            }
          }
        }
      }
    }
    let t = ctx.taps.lock().unwrap();
    out2.lock().unwrap().1 = (t.next, t.error, t.complete);
    for r in recs.iter_mut() {
      r.hook = None;
    }
  });
  let records = recs.iter().map(|r| r.events().into_iter().map(|e| e.ev).collect()).collect();
  let o = out.lock().unwrap().clone();
  RunRec { res, built: o.0, records, taps: o.1 }
}

impl Family for C14 {
  fn name(&self) -> &'static str {
    "c14-resubscribe"
  }
  fn threaded(&self) -> bool {
    false
  }
  fn gen(&self, rng: &mut Rng, tier: Tier) -> Json {
    let nsrc = rng.range(1, 2) as usize;
    let depth = if tier == Tier::Quick { rng.range(1, 3) } else { rng.range(1, 5) } as u32;
    let g = pipe::GenCfg { nsrc, unary: OPS, multi: pipe::MULTI, trig: &["take_until", "skip_until", "sample"], news: &["just", "from_iter", "empty", "range"], max_depth: depth };
    let mut next_src = 0;
    let mut pipeline = pipe::gen_node(rng, &g, depth, &mut next_src);
    // every operator under retry: wrap the whole pipeline now and then
    if rng.below(5) == 0 {
      pipeline = Json::obj(vec![("op", Json::str("retry")), ("a", Json::Int(rng.range(1, 3) as i64)), ("in", pipeline)]);
    }
    let nsubs = rng.range(2, 3) as usize;
    let same_scripts = rng.below(2) == 0;
    let sources: Vec<Json> = (0..nsrc)
      .map(|i| {
        let hot = rng.below(4) != 0;
        let first = gen_script(rng, (i as i64 + 1) * 100, 4, true);
        let scripts: Vec<Vec<Step>> = (0..nsubs).map(|k| if same_scripts || !hot || k == 0 { first.clone() } else { gen_script(rng, (i as i64 + 1) * 100 + 20 * k as i64, 4, true) }).collect();
        Json::obj(vec![("mode", Json::str(if hot { "hot" } else { "cold" })), ("scripts", Json::arr(scripts.iter(), |s| script_to_json(s)))])
      })
      .collect();
    // actions: sequential or interleaved
    let mut actions: Vec<(usize, i64)> = Vec::new();
    let interleaved = rng.below(3) != 0;
    let per_sub: Vec<Vec<(usize, i64)>> = (0..nsubs)
      .map(|k| {
        let mut v = vec![(k, -1)];
        let mut rem: Vec<usize> = (0..nsrc).map(|_| 6).collect();
        loop {
          let live: Vec<usize> = (0..nsrc).filter(|i| rem[*i] > 0).collect();
          if live.is_empty() {
            break;
          }
          let i = *rng.pick(&live);
          rem[i] -= 1;
          v.push((k, i as i64));
        }
        v
      })
      .collect();
    if interleaved {
      let mut idx = vec![0usize; nsubs];
      loop {
        let live: Vec<usize> = (0..nsubs).filter(|k| idx[*k] < per_sub[*k].len()).collect();
        if live.is_empty() {
          break;
        }
        let k = *rng.pick(&live);
        actions.push(per_sub[k][idx[k]]);
        idx[k] += 1;
      }
    } else {
      for v in &per_sub {
        actions.extend(v.iter().cloned());
      }
    }
    let nest = if rng.below(6) == 0 { Json::Arr(vec![Json::Int(1), Json::Int(0)]) } else { Json::Null };
    Json::obj(vec![
      ("pipeline", pipeline),
      ("sources", Json::Arr(sources)),
      ("nsubs", Json::Int(nsubs as i64)),
      ("actions", Json::arr(actions.iter(), |(k, i)| Json::Arr(vec![Json::Int(*k as i64), Json::Int(*i)]))),
      ("nest", nest),
    ])
  }
  fn exec(&self, w: &Json, cfg: RunCfg) -> RunOut {
    let spec = match parse(w) {
      Some(s) => s,
      None => return RunOut::invalid(),
    };
    let mut cfg = cfg;
    cfg.step_budget = 60_000;
    let shared = drive(&spec, None, cfg.clone());
    if !shared.built {
      return RunOut::invalid();
    }
    let mut v = Vec::new();
    let blame = blame_of(&spec.pipeline);
    let pshow = pipe::show(&spec.pipeline);
    let show = |x: &[Ev]| x.iter().map(|e| e.show()).collect::<Vec<_>>().join(" ");
    let mut history = Vec::new();
    for (k, r) in shared.records.iter().enumerate() {
      history.push(format!("shared run, subscriber {}: {}", k, show(r)));
    }
    if shared.res.outcome.is_ok() {
      let mut tap_sum = (0u64, 0u64, 0u64);
      let mut solo_ok = true;
      for k in 0..spec.nsubs {
        let solo = drive(&spec, Some(k), cfg.clone());
        if !solo.res.outcome.is_ok() {
          solo_ok = false;
          continue;
        }
        tap_sum = (tap_sum.0 + solo.taps.0, tap_sum.1 + solo.taps.1, tap_sum.2 + solo.taps.2);
        history.push(format!("solo run (fresh pipeline), subscriber {}: {}", k, show(&solo.records[k])));
        if solo.records[k] != shared.records[k] {
          v.push(Violation::new(
            "subscription-not-independent",
            &blame,
            format!(
              "pipeline {}: subscriber {} received [{}] when {} subscriptions shared one Observable value, but [{}] when it was the only subscriber of a freshly built pipeline",
              pshow,
              k,
              show(&shared.records[k]),
              spec.nsubs,
              show(&solo.records[k])
            ),
          ));
        }
      }
      if solo_ok && v.is_empty() && tap_sum != shared.taps {
        v.push(Violation::new(
          "tap-side-effects-differ",
          "tap",
          format!("pipeline {}: tap callbacks fired (next,error,complete)={:?} in the shared run, but {:?} summed over the solo runs", pshow, shared.taps, tap_sum),
        ));
      }
    }
    let reach = vec![
      ("c14-second-subscription-while-first-mid-stream", {
        let first_sub: Vec<usize> = spec.actions.iter().enumerate().filter(|(_, a)| a.1 < 0).map(|(n, _)| n).collect();
        (first_sub.len() > 1 && spec.actions[..first_sub[1]].iter().any(|a| a.1 >= 0)) as u64
      }),
      ("c14-nested-subscribe", spec.nest.is_some() as u64),
      ("c14-under-retry", pshow.contains(".retry(") as u64),
    ];
    let mut fp = 0u64;
    for h in &history {
      fp = fp.wrapping_mul(0x100000001B3) ^ fnv(h);
    }
    RunOut { fingerprint: fp, res: shared.res, violations: v, invalid: false, reach, history }
  }
  fn shrink(&self, w: &Json) -> Vec<Json> {
    shrink_pipeline_field(w)
  }
}

// ================================================================================================
// nested subscription on a cold, synchronous source - also behind a sharing operator

/// A second subscription started from inside the first subscriber's callback while a cold source
/// is still emitting synchronously. Behind `ref_count()` / `replay()` the second subscriber joins
/// the running connection; what is judged there is what the statement still says: the first
/// subscriber receives what it would have received alone, the nested subscribe call returns, and
/// the second subscriber gets the whole sequence (replay, plain pipeline) or the rest of it
/// (ref_count) with the terminal.
pub struct C14Shared;

impl Family for C14Shared {
  fn name(&self) -> &'static str {
    "c14-nested-subscription-midstream"
  }
  fn threaded(&self) -> bool {
    false
  }
  fn gen(&self, rng: &mut Rng, _tier: Tier) -> Json {
    let script = gen_script(rng, 100, 4, true);
    Json::obj(vec![
      ("kind", Json::str(*rng.pick(&["ref_count", "replay", "plain"]))),
      ("script", script_to_json(&script)),
      ("nest_at", Json::Int(rng.below(4) as i64)),
      ("share_observable", Json::Bool(rng.below(2) == 0)),
      ("context", Json::str(*rng.pick(&["none", "map", "tap"]))),
      ("polite", Json::Bool(rng.below(2) == 0)),
    ])
  }
  fn exec(&self, w: &Json, cfg: RunCfg) -> RunOut {
    let kind = w.s("kind");
    let context = w.s("context");
    if !["ref_count", "replay", "plain"].contains(&kind.as_str()) || !["none", "map", "tap"].contains(&context.as_str()) {
      return RunOut::invalid();
    }
    let script = match w.get("script").and_then(script_from_json) {
      Some(s) if s.len() <= 8 => s,
      _ => return RunOut::invalid(),
    };
    let nterm = script.iter().filter(|s| !matches!(s, Step::N(_))).count();
    if nterm > 1 || (nterm == 1 && matches!(script.last(), Some(Step::N(_)))) {
      return RunOut::invalid();
    }
    let nest_at = w.i("nest_at");
    if nest_at < 0 || nest_at > 8 {
      return RunOut::invalid();
    }
    let (share, polite) = (w.b("share_observable"), w.b("polite"));
    let mut rec_a = Recorder::new();
    let rec_b = Recorder::new();
    let log = Arc::new(Mutex::new(SrcLog::default()));
    let nested_returned = Arc::new(Mutex::new(None::<bool>));
    let (rb2, log2, sc2, kind2, nr2) = (rec_b.clone(), log.clone(), script.clone(), kind.clone(), nested_returned.clone());
    let obs_cell: Arc<Mutex<Option<Arc<dyn Fn() -> Observable<'static, Val> + Send + Sync>>>> = Arc::new(Mutex::new(None));
    let oc2 = obs_cell.clone();
    let seen = Arc::new(Mutex::new(0i64));
    rec_a.hook = Some(Arc::new(move |ev: &Ev| {
      if !matches!(ev, Ev::Next(_)) {
        return;
      }
      let k = {
        let mut s = seen.lock().unwrap();
        *s += 1;
        *s - 1
      };
      if k == nest_at {
        let f = oc2.lock().unwrap().clone();
        if let Some(f) = f {
          *nr2.lock().unwrap() = Some(false);
          let sub = rb2.subscribe(&f());
          std::mem::forget(sub);
          *nr2.lock().unwrap() = Some(true);
        }
      }
    }));
    let ra2 = rec_a.clone();
    let res = rt::run(cfg, move || {
      let mut source = cold_source(vec![sc2.clone()], log2.clone(), None, polite);
      source = match context.as_str() {
        "map" => source.map(|x: Val| x),
        "tap" => source.tap(|_| {}, |_| {}, || {}),
        _ => source,
      };
      let get: Arc<dyn Fn() -> Observable<'static, Val> + Send + Sync> = match kind2.as_str() {
        "ref_count" => {
          let c = source.ref_count();
          let shared = c.observable();
          Arc::new(move || if share { shared.clone() } else { c.observable() })
        }
        "replay" => {
          let c = source.replay();
          let shared = c.observable();
          Arc::new(move || if share { shared.clone() } else { c.observable() })
        }
        _ => Arc::new(move || source.clone()),
      };
      *obs_cell.lock().unwrap() = Some(get.clone());
      let sub = ra2.subscribe(&get());
      std::mem::forget(sub);
      *obs_cell.lock().unwrap() = None;
    });
    let blame = if kind == "plain" { "observable" } else { kind.as_str() };
    let mut v = Vec::new();
    let want: Vec<Ev> = script
      .iter()
      .map(|s| match s {
        Step::N(x) => Ev::Next(Val::Int(*x)),
        Step::E(e) => Ev::Error(*e),
        Step::C => Ev::Complete,
      })
      .collect();
    let a: Vec<Ev> = rec_a.events().into_iter().map(|e| e.ev).collect();
    let b: Vec<Ev> = rec_b.events().into_iter().map(|e| e.ev).collect();
    let show = |x: &[Ev]| x.iter().map(|e| e.show()).collect::<Vec<_>>().join(" ");
    let history = vec![format!("first subscriber: [{}]", show(&a)), format!("nested subscriber: [{}]", show(&b)), format!("source subscriptions: {}", log.lock().unwrap().subscriptions.len())];
    let n_items = want.iter().filter(|e| matches!(e, Ev::Next(_))).count() as i64;
    let what = format!("cold source [{}] behind {} ({}), second subscription started inside the first subscriber's next callback #{}", show(&want), kind, if share { "one Observable value" } else { "observable() each" }, nest_at);
    if let Some(o) = outcome_violation(&res, blame) {
      v.push(o);
    } else {
      if a != want {
        v.push(Violation::new("subscription-not-independent", blame, format!("{}: the first subscriber received [{}], alone it would have received [{}]", what, show(&a), show(&want))));
      }
      if nest_at < n_items {
        if *nested_returned.lock().unwrap() != Some(true) {
          v.push(Violation::new("nested-subscribe-did-not-return", blame, format!("{}: the nested subscribe call never returned", what)));
        }
        let ok = match kind.as_str() {
          // a running ref_count connection is joined mid-stream: the rest of the items and the terminal
          "ref_count" => {
            let items_b: Vec<Ev> = b.iter().filter(|e| matches!(e, Ev::Next(_))).cloned().collect();
            let items_w: Vec<Ev> = want.iter().filter(|e| matches!(e, Ev::Next(_))).cloned().collect();
            let tail_ok = items_w.ends_with(&items_b) && (items_b.len() as i64) <= n_items - nest_at;
            let term_w = want.iter().find(|e| e.is_terminal());
            let term_b = b.iter().find(|e| e.is_terminal());
            tail_ok && term_w == term_b && b.iter().filter(|e| e.is_terminal()).count() <= 1 && b.last().map_or(true, |l| term_b.is_none() || l.is_terminal())
          }
          _ => b == want,
        };
        if !ok {
          v.push(Violation::new("nested-subscription-wrong", blame, format!("{}: the nested subscriber received [{}]", what, show(&b))));
        }
        let subs = log.lock().unwrap().subscriptions.len();
        let want_subs = if kind == "plain" { 2 } else { 1 };
        if subs != want_subs {
          v.push(Violation::new("source-subscription-count", blame, format!("{}: the source was subscribed {} time(s), expected {}", what, subs, want_subs)));
        }
      }
    }
    let reach = vec![("c14-nested-subscription-started", (nest_at < n_items) as u64)];
    RunOut { fingerprint: crate::seq::fp(&history), res, violations: v, invalid: false, reach, history }
  }
}


// ================================================================================================
// several threads subscribe the same Observable value at the same time

/// One pipeline value over cold deterministic sources, subscribed by 2..3 threads at once. Each
/// subscriber must receive exactly what a subscriber of a freshly built copy receives alone, and
/// the functions handed to `start` / `defer` run once per subscription.
pub struct C14Thr;

impl Family for C14Thr {
  fn name(&self) -> &'static str {
    "c14-concurrent-subscriptions"
  }
  fn threaded(&self) -> bool {
    true
  }
  fn gen(&self, rng: &mut Rng, _tier: Tier) -> Json {
    let nsrc = rng.range(1, 2) as usize;
    let depth = rng.range(0, 2) as u32;
    // no resubscribing operators here: over a cold source that fails they may never end
    let ops: Vec<&str> = OPS.iter().copied().filter(|o| !["retry", "retry_when"].contains(o)).collect();
    let g = pipe::GenCfg { nsrc, unary: &ops, multi: pipe::MULTI, trig: &["take_until", "skip_until", "sample"], news: &["just", "from_iter", "empty", "range", "start", "start"], max_depth: depth };
    let mut next_src = 0;
    let mut pipeline = pipe::gen_node(rng, &g, depth, &mut next_src);
    if rng.below(4) == 0 {
      pipeline = Json::obj(vec![("new", Json::str("start")), ("a", Json::Int(rng.below(8) as i64 + 50))]);
    }
    let sources: Vec<Json> = (0..nsrc).map(|i| Json::obj(vec![("mode", Json::str("cold")), ("scripts", Json::arr([gen_script(rng, (i as i64 + 1) * 100, 3, false)].iter(), |s| script_to_json(s)))])).collect();
    Json::obj(vec![
      ("pipeline", pipeline),
      ("sources", Json::Arr(sources)),
      ("threads", Json::Int(rng.range(2, 3) as i64)),
      ("waits", Json::Arr((0..3).map(|_| Json::Int(rng.below(5) as i64)).collect())),
    ])
  }
  fn exec(&self, w: &Json, cfg: RunCfg) -> RunOut {
    let pipeline = match w.get("pipeline") {
      Some(p) => p.clone(),
      None => return RunOut::invalid(),
    };
    let mut scripts: Vec<Vec<Step>> = Vec::new();
    for s in w.a("sources") {
      if s.s("mode") != "cold" {
        return RunOut::invalid();
      }
      match s.a("scripts").first().and_then(script_from_json) {
        Some(sc) if sc.len() <= 6 => scripts.push(sc),
        _ => return RunOut::invalid(),
      }
    }
    let nthreads = w.i("threads");
    if scripts.is_empty() || scripts.len() > 3 || !(2..=3).contains(&nthreads) {
      return RunOut::invalid();
    }
    {
      let mut used = Vec::new();
      pipe::sources_used(&pipeline, scripts.len(), &mut used);
      if used.iter().any(|i| *i >= scripts.len()) {
        return RunOut::invalid();
      }
    }
    let waits: Vec<i64> = w.a("waits").iter().map(|x| x.as_i64().unwrap_or(0).clamp(0, 20)).collect();
    let build = {
      let (pipeline, scripts) = (pipeline.clone(), scripts.clone());
      move || -> Option<(Observable<'static, Val>, pipe::Ctx)> {
        let obs = scripts.iter().map(|sc| cold_source(vec![sc.clone()], Arc::new(Mutex::new(SrcLog::default())), None, false)).collect();
        let ctx = pipe::Ctx::new(obs);
        pipe::build(&pipeline, &ctx).map(|o| (o, ctx))
      }
    };
    // reference: a fresh copy subscribed once, alone
    let rec_ref = Recorder::new();
    let ref_calls = Arc::new(Mutex::new(0u64));
    let (rr, b0, rc2) = (rec_ref.clone(), build.clone(), ref_calls.clone());
    let mut c0 = cfg.clone();
    c0.step_budget = 40_000;
    let built = Arc::new(Mutex::new(false));
    let built2 = built.clone();
    let res0 = rt::run(c0.clone(), move || {
      if let Some((o, ctx)) = b0() {
        *built2.lock().unwrap() = true;
        let _s = rr.subscribe(&o);
        rt::quiesce();
        *rc2.lock().unwrap() = *ctx.factory_calls.lock().unwrap();
      }
    });
    if !*built.lock().unwrap() {
      return RunOut::invalid();
    }
    // a pipeline that does not run to its end alone is not judged here
    if !res0.outcome.is_ok() {
      let history = vec![format!("reference run: {}", res0.outcome.describe())];
      return RunOut { fingerprint: crate::seq::fp(&history), res: res0, violations: vec![], invalid: false, reach: vec![], history };
    }
    let recs: Vec<Recorder> = (0..nthreads).map(|_| Recorder::new()).collect();
    let calls = Arc::new(Mutex::new(0u64));
    let (recs2, calls2) = (recs.clone(), calls.clone());
    let res = rt::run(c0, move || {
      if let Some((o, ctx)) = build() {
        let mut hs = Vec::new();
        for (k, rec) in recs2.iter().enumerate() {
          let (o, rec, wt) = (o.clone(), rec.clone(), waits.get(k).copied().unwrap_or(0));
          hs.push(rt::spawn_harness(&format!("subscriber{}", k), move || {
            for _ in 0..wt {
              rt::probe("c14-subscriber-wait");
            }
            let s = rec.subscribe(&o);
            std::mem::forget(s);
          }));
        }
        for h in hs {
          let _ = h.join();
        }
        rt::quiesce();
        *calls2.lock().unwrap() = *ctx.factory_calls.lock().unwrap();
      }
    });
    let blame = blame_of(&pipeline);
    let pshow = pipe::show(&pipeline);
    let show = |x: &[Ev]| x.iter().map(|e| e.show()).collect::<Vec<_>>().join(" ");
    let want: Vec<Ev> = rec_ref.events().into_iter().map(|e| e.ev).collect();
    let mut history = vec![format!("alone: [{}] ({} factory call(s))", show(&want), ref_calls.lock().unwrap())];
    let mut v = Vec::new();
    if let Some(o) = outcome_violation(&res, &blame) {
      v.push(o);
    } else {
      for (k, r) in recs.iter().enumerate() {
        let got: Vec<Ev> = r.events().into_iter().map(|e| e.ev).collect();
        history.push(format!("subscriber {}: [{}]", k, show(&got)));
        if got != want {
          v.push(Violation::new("subscription-not-independent", &blame, format!("pipeline {} subscribed by {} threads at once: subscriber {} received [{}], alone it receives [{}]", pshow, nthreads, k, show(&got), show(&want))));
        }
      }
      let (c, c1) = (*calls.lock().unwrap(), *ref_calls.lock().unwrap());
      history.push(format!("factory calls: {}", c));
      if c != c1 * nthreads as u64 {
        v.push(Violation::new("side-effects-differ", &blame, format!("pipeline {} subscribed by {} threads at once: the functions handed to start / defer ran {} time(s), alone they run {} time(s) per subscription", pshow, nthreads, c, c1)));
      }
    }
    RunOut { fingerprint: crate::seq::fp(&history), res, violations: v, invalid: false, reach: vec![], history }
  }
  fn shrink(&self, w: &Json) -> Vec<Json> {
    shrink_pipeline_field(w)
  }
}

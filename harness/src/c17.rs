//! C17 - a finished subscription releases the user's callbacks and items (DESIGN.md 5.17)
//!
//! Every closure handed to an operator and to subscribe, and every item, carries a clone of
//! one counting token. After the subscription ended (complete / error / cancel at every
//! position) the harness drops its Observable, Subscription and source handles; nothing may
//! own a token any more.

use crate::c01::{blame_of, gen_sources, shrink_pipeline_field, spec_to_json};
use crate::common::*;
use crate::json::Json;
use crate::pipe;
use crate::rec::*;
use crate::seq::*;
use rxsim_rt::prng::Rng;
use rxsim_rt::RunCfg;

pub struct C17;

const OPS: &[&str] = &[
  "map", "filter", "take", "skip", "take_last", "skip_last", "take_while", "skip_while", "first", "last", "element_at",
  "distinct_until_changed", "scan", "reduce", "count", "sum", "min", "max", "all", "contains", "default_if_empty",
  "ignore_elements", "start_with", "buffer_with_count", "window_with_count", "group_by", "materialize", "mat_demat", "tap",
  "map_to_any", "flat_map", "on_error_resume_next", "retry", "retry_when", "map_id",
  // sharing operators (their subject's hooks once owned the subject itself), and
  // Behavior/ReplaySubject-backed streams (the bridge to the inner subject once kept the
  // subscriber's callbacks after a terminal)
  "ref_count", "replay",
];

impl Family for C17 {
  fn name(&self) -> &'static str {
    "c17-release"
  }
  fn threaded(&self) -> bool {
    false
  }
  fn gen(&self, rng: &mut Rng, tier: Tier) -> Json {
    let nsrc = rng.range(1, 2) as usize;
    let depth = if tier == Tier::Quick { rng.below(4) } else { rng.below(5) } as u32;
    let with_threads = rng.below(6) == 0;
    let mut unary: Vec<&str> = OPS.to_vec();
    if with_threads {
      unary.extend_from_slice(&["observe_on", "observe_on", "subscribe_on", "observe_on"]);
    }
    let g = pipe::GenCfg { nsrc, unary: &unary, multi: pipe::MULTI, trig: &["take_until", "skip_until", "sample", "switch_on_next"], news: &["just", "from_iter", "empty", "error", "start"], max_depth: depth };
    let mut next_src = 0;
    let mut pipeline = if rng.below(10) == 0 { Json::obj(vec![("src", Json::Int(0))]) } else { pipe::gen_node(rng, &g, depth, &mut next_src) };
    if rng.below(25) == 0 {
      // a shared stream whose source emits inside connect (start_with over a hot source) and whose
      // first subscriber has all it needs at once
      let mut p = Json::obj(vec![("src", Json::Int(0))]);
      for (op, a) in [("start_with", 3i64), ("map", 1), (*rng.pick(&["ref_count", "replay"]), 0), (*rng.pick(&["take", "first", "element_at"]), if rng.below(2) == 0 { 1 } else { 0 })] {
        p = Json::obj(vec![("op", Json::str(op)), ("a", Json::Int(a)), ("in", p)]);
      }
      pipeline = p;
      next_src = 1;
    }
    // finite sources that do end: complete or error (never silence, so that "ended" is well defined
    // unless a cancel is injected)
    let mut sources = gen_sources(rng, nsrc, 3, false, &[Mode::Hot, Mode::Hot, Mode::Cold, Mode::Subject, Mode::ReplaySubject]);
    for s in sources.iter_mut() {
      for sc in s.scripts.iter_mut() {
        if sc.last().map_or(true, |x| matches!(x, Step::N(_))) {
          sc.push(if rng.below(3) == 0 { Step::E(4) } else { Step::C });
        }
      }
    }
    let mut order = gen_order(rng, &sources, 0);
    // cancel@k: an unsubscribe at every kind of position; otherwise always a final unsubscribe-free end
    // the callbacks keep a clone of their own Subscription: judged once the caller has unsubscribed
    let keep_sub = rng.below(4) == 0;
    let cancel = keep_sub || rng.below(3) == 0;
    if cancel {
      let pz = rng.below(order.len() as u64 + 1) as usize;
      order.insert(pz, ACT_UNSUB);
    }
    spec_to_json(pipeline, &sources, &order, vec![("tokens", Json::Bool(true)), ("drop_all", Json::Bool(true)), ("allow_threads", Json::Bool(with_threads)), ("keep_sub", Json::Bool(keep_sub))])
  }
  fn exec(&self, w: &Json, cfg: RunCfg) -> RunOut {
    let mut spec = match spec_from_json(w) {
      Some(s) => s,
      None => return RunOut::invalid(),
    };
    spec.tokens = true;
    spec.drop_all = true;
    let mut cfg = cfg;
    cfg.step_budget = 40_000;
    let r = run_seq(&spec, cfg);
    if !r.built {
      return RunOut::invalid();
    }
    let history = history(&r);
    let mut v = Vec::new();
    let blame = blame_of(&spec.pipeline);
    let pshow = pipe::show(&spec.pipeline);
    let evs = r.rec.events();
    let ended_by = if !r.unsubs.is_empty() {
      "unsubscribe"
    } else if evs.iter().any(|e| e.ev == Ev::Complete) {
      "complete"
    } else if evs.iter().any(|e| e.ev.is_terminal()) {
      "error"
    } else {
      "none"
    };
    // the property speaks about subscriptions that have ended
    // (callbacks that hold their own Subscription: the caller has "dropped its handles" only once the
    // library has been told to let go of the callbacks, i.e. after an unsubscribe)
    if r.res.outcome.is_ok() && ended_by != "none" && !(spec.keep_sub && r.unsubs.is_empty()) {
      // (r.live_tokens_sources_alive - the count while the caller's sources are still alive - is
      // recorded but not judged: what a source that outlives the subscription may legitimately keep
      // differs per source kind; the sources' side is C06's and C10's business)
      if let Some(n) = r.live_tokens {
        if n > 0 {
          v.push(Violation::new(
            "tokens-leaked",
            &blame,
            format!("pipeline {} ended by {}: after the caller dropped its Observable, Subscription and sources, {} owner(s) of the user's callbacks / operator closures / items are still alive", pshow, ended_by, n),
          ));
        }
      }
    }
    let reach = vec![
      ("c17-ended-by-complete", (ended_by == "complete") as u64),
      ("c17-ended-by-error", (ended_by == "error") as u64),
      ("c17-ended-by-unsubscribe", (ended_by == "unsubscribe") as u64),
      ("c17-not-ended", (ended_by == "none") as u64),
      ("c17-with-scheduler-threads", spec.allow_threads as u64),
    ];
    RunOut { fingerprint: fp(&history) ^ r.live_tokens.unwrap_or(0) as u64, res: r.res, violations: v, invalid: false, reach, history }
  }
  fn shrink(&self, w: &Json) -> Vec<Json> {
    shrink_pipeline_field(w)
  }
}

//! C18 - to_vec future resolves once with everything the source emitted (DESIGN.md 5.18).
//!
//! A scripted source emits from its own task (or synchronously); a minimal executor built
//! on the facade Mutex/Condvar polls the real `ToVec` future; spurious wake-ups and extra
//! eager polls make `poll` land at arbitrary points of the source's callbacks.

use crate::common::*;
use crate::json::Json;
use crate::rec::*;
use crate::val::*;
use rxsim_rt as rt;
use rxsim_rt::prng::Rng;
use rxsim_rt::sync::{Condvar, Mutex as SimMutex};
use rxsim_rt::RunCfg;
use std::future::Future;
use std::sync::{Arc, Mutex};
use std::task::{Context, Poll, Wake, Waker};

pub struct C18;

struct Flag {
  m: SimMutex<bool>,
  cv: Condvar,
  wakes: Mutex<u64>,
}

impl Wake for Flag {
  fn wake(self: Arc<Self>) {
    *self.wakes.lock().unwrap() += 1;
    *self.m.lock().unwrap() = true;
    self.cv.notify_one();
  }
}

#[derive(Clone, Debug)]
struct PollRec {
  seq_start: u64,
  seq_end: u64,
  ready: Option<Result<Vec<i64>, i64>>,
}

impl Family for C18 {
  fn name(&self) -> &'static str {
    "c18-to-vec"
  }
  fn threaded(&self) -> bool {
    true
  }
  fn gen(&self, rng: &mut Rng, tier: Tier) -> Json {
    let n = rng.below(if tier == Tier::Quick { 4 } else { 6 });
    let mut script: Vec<Step> = (0..n).map(|i| Step::N(10 + i as i64)).collect();
    script.push(if rng.below(3) == 0 { Step::E(7) } else { Step::C });
    Json::obj(vec![
      ("script", script_to_json(&script)),
      ("mode", Json::str(*rng.pick(&["threaded", "threaded", "threaded", "sync"]))),
      ("eager_polls", Json::Int(rng.below(3) as i64)),
      ("check_subscribed", Json::Bool(rng.below(2) == 0)),
      // after this many Pending polls the future is polled with a different waker (as when it moves to another task)
      ("new_waker_after", Json::Int(if rng.below(3) == 0 { rng.range(1, 2) as i64 } else { -1 })),
      // a clone of the future, polled once after the original has resolved, yields the same result
      ("second_handle", Json::Bool(rng.below(3) == 0)),
      // a second source thread signals an error of its own at a scheduler-chosen point (a watchdog
      // racing the emitter): one of the two terminals wins, and the future must resolve with it;
      // -1 = absent, otherwise the number of scheduling points it lets pass first
      ("watchdog_wait", Json::Int(if rng.below(4) == 0 { rng.below(12) as i64 } else { -1 })),
      // the thread that later emits also builds the future (to_vec subscribes at construction) and
      // hands it to the polling task; it starts to emit after this many scheduling points; -1 = absent
      ("built_by_emitter_wait", Json::Int(if rng.below(5) == 0 { rng.below(12) as i64 } else { -1 })),
    ])
  }
  fn knobs(&self, rng: &mut Rng, _w: &Json, _tier: Tier) -> Json {
    let mut k = default_knobs(rng, true);
    if let Json::Obj(m) = &mut k {
      m.insert("spurious_permille".into(), Json::Int(*rng.pick(&[0i64, 50, 150, 300])));
    }
    k
  }
  fn exec(&self, w: &Json, cfg: RunCfg) -> RunOut {
    let script = match w.get("script").and_then(script_from_json) {
      Some(s) => s,
      None => return RunOut::invalid(),
    };
    let n_term = script.iter().filter(|s| !matches!(s, Step::N(_))).count();
    if n_term != 1 || matches!(script.last(), Some(Step::N(_))) || script.len() > 12 {
      return RunOut::invalid(); // the property is about well-formed finite scripts
    }
    let threaded = w.s("mode") != "sync";
    let eager = w.i("eager_polls").clamp(0, 4);
    let check_sub = w.b("check_subscribed");
    let new_waker_after = if w.get("new_waker_after").is_some() { w.i("new_waker_after") } else { -1 };
    let second_handle = w.get("second_handle").is_some() && w.b("second_handle");
    let watchdog = if w.get("watchdog_wait").is_some() { w.i("watchdog_wait").clamp(-1, 40) } else { -1 };
    let by_emitter = if w.get("built_by_emitter_wait").is_some() { w.i("built_by_emitter_wait").clamp(-1, 40) } else { -1 };
    let watchdog = if by_emitter >= 0 { -1 } else { watchdog };
    // (the watchdog variant always has its emitter on a thread of its own)
    let threaded = threaded || watchdog >= 0 || by_emitter >= 0;
    let second: Arc<Mutex<Option<Option<Result<Vec<i64>, i64>>>>> = Arc::new(Mutex::new(None));
    let second2 = second.clone();
    let src_log = Arc::new(Mutex::new(SrcLog::default()));
    let polls: Arc<Mutex<Vec<PollRec>>> = Arc::new(Mutex::new(Vec::new()));
    let flag = Arc::new(Flag { m: SimMutex::new(false), cv: Condvar::new(), wakes: Mutex::new(0) });
    let flag_b = Arc::new(Flag { m: SimMutex::new(false), cv: Condvar::new(), wakes: Mutex::new(0) });
    let (sl, pl, fl, sc) = (src_log.clone(), polls.clone(), flag.clone(), script.clone());
    let flb = flag_b.clone();
    let (src_log_b, script_b) = (src_log.clone(), script.clone());
    let res = rt::run(cfg, move || {
      let handles = Arc::new(Mutex::new(Vec::new()));
      let leaked: Arc<Mutex<Option<usize>>> = Arc::new(Mutex::new(None));
      let o = if watchdog >= 0 {
        let handles = handles.clone();
        another_rxrust::prelude::Observable::create(move |s: another_rxrust::prelude::Observer<'static, Val>| {
          let (s2, sl2, sc) = (s.clone(), sl.clone(), sc.clone());
          let h1 = rt::spawn_harness("to_vec-source", move || {
            for st in &sc {
              if check_sub && !s2.is_subscribed() {
                break;
              }
              emit(&s2, 0, st, &sl2, &None);
            }
          });
          let (s3, sl3) = (s.clone(), sl.clone());
          let h2 = rt::spawn_harness("to_vec-watchdog", move || {
            for _ in 0..watchdog {
              rt::probe("c18-watchdog-wait");
            }
            emit(&s3, 1, &Step::E(9), &sl3, &None);
          });
          handles.lock().unwrap().extend([h1, h2]);
        })
      } else if threaded {
        threaded_source("to_vec-source", sc, sl, check_sub, vec![], handles.clone())
      } else {
        cold_source(vec![sc], sl, None, check_sub)
      };
      let first = if by_emitter >= 0 {
        // the emitter builds the future over a source that only stores its observer, hands the
        // future over, waits a little and then plays the script on its own thread
        let slot: Arc<Mutex<Option<another_rxrust::operators::to_vec::ToVec<'static, Val>>>> = Arc::new(Mutex::new(None));
        let ready = Arc::new(Flag { m: SimMutex::new(false), cv: Condvar::new(), wakes: Mutex::new(0) });
        let (slot2, ready2, sl3, sc3) = (slot.clone(), ready.clone(), src_log_b.clone(), script_b.clone());
        let leaked2 = leaked.clone();
        let h = rt::spawn_harness("to_vec-builder-emitter", move || {
          let cell: Arc<Mutex<Option<another_rxrust::prelude::Observer<'static, Val>>>> = Arc::new(Mutex::new(None));
          let c2 = cell.clone();
          let src = another_rxrust::prelude::Observable::create(move |s: another_rxrust::prelude::Observer<'static, Val>| {
            *c2.lock().unwrap() = Some(s);
          });
          // (to_vec ties the future's lifetime to the borrow of its source: the harness leaks this one)
          let src: &'static another_rxrust::prelude::Observable<'static, Val> = Box::leak(Box::new(src));
          *leaked2.lock().unwrap() = Some(src as *const _ as usize);
          let fut = src.to_vec();
          *slot2.lock().unwrap() = Some(fut);
          *ready2.m.lock().unwrap() = true;
          ready2.cv.notify_one();
          for _ in 0..by_emitter {
            rt::probe("c18-builder-emitter-wait");
          }
          let s = cell.lock().unwrap().clone();
          if let Some(s) = s {
            for st in &sc3 {
              emit(&s, 0, st, &sl3, &None);
            }
          }
        });
        handles.lock().unwrap().push(h);
        let mut g = ready.m.lock().unwrap();
        while !*g {
          g = ready.cv.wait(g).unwrap();
        }
        drop(g);
        let f = slot.lock().unwrap().take();
        match f {
          Some(f) => f,
          None => return,
        }
      } else {
        o.to_vec()
      };
      let mut other = if second_handle { Some(Box::pin(first.clone())) } else { None };
      let mut fut = Box::pin(first);
      let mut fl = fl;
      let mut waker = Waker::from(fl.clone());
      let mut n = 0;
      loop {
        if new_waker_after >= 0 && n == new_waker_after {
          // from now on the task is represented by another waker; only that one may be relied on
          fl = flb.clone();
          waker = Waker::from(fl.clone());
        }
        let mut cx = Context::from_waker(&waker);
        let seq_start = rt::seq();
        let r = fut.as_mut().poll(&mut cx);
        let seq_end = rt::seq();
        let ready = match r {
          Poll::Ready(Ok(buf)) => Some(Ok(buf.read().unwrap().iter().map(|v: &Val| v.int()).collect::<Vec<_>>())),
          Poll::Ready(Err(e)) => Some(Err(err_id(&e))),
          Poll::Pending => None,
        };
        let done = ready.is_some();
        pl.lock().unwrap().push(PollRec { seq_start, seq_end, ready });
        if done {
          if let Some(f2) = other.as_mut() {
            let r2 = f2.as_mut().poll(&mut cx);
            *second2.lock().unwrap() = Some(match r2 {
              Poll::Ready(Ok(buf)) => Some(Ok(buf.read().unwrap().iter().map(|v: &Val| v.int()).collect::<Vec<_>>())),
              Poll::Ready(Err(e)) => Some(Err(err_id(&e))),
              Poll::Pending => None,
            });
          }
          break;
        }
        n += 1;
        if n <= eager {
          rt::probe("c18-eager-repoll");
          continue;
        }
        // park until woken (or spuriously woken)
        let mut g = fl.m.lock().unwrap();
        if !*g {
          g = fl.cv.wait(g).unwrap();
        }
        *g = false;
        drop(g);
        if n > 200 {
          break;
        }
      }
      let hs: Vec<_> = std::mem::take(&mut *handles.lock().unwrap());
      for h in hs {
        let _ = h.join();
      }
      // give the leaked source back once every future that borrows it is gone
      drop(fut);
      drop(other);
      let p = leaked.lock().unwrap().take();
      if let Some(p) = p {
        unsafe { drop(Box::from_raw(p as *mut another_rxrust::prelude::Observable<'static, Val>)) };
      }
    });
    // ---- oracle
    let mut v = Vec::new();
    let blame = "to_vec";
    let polls = polls.lock().unwrap().clone();
    let emits = src_log.lock().unwrap().emits.clone();
    // with a watchdog there are two terminal calls: nothing may be ready before the first one starts,
    // and everything must be once both have returned
    let terms: Vec<&Emit> = emits.iter().filter(|e| !matches!(e.step, Step::N(_))).collect();
    let term_first_start = terms.iter().map(|e| e.seq_start).min();
    let all_terms_done = if watchdog >= 0 && terms.len() < 2 && !check_sub { None } else { terms.iter().map(|e| e.seq_end).max() };
    let term = terms.first().copied();
    let mut history: Vec<String> = Vec::new();
    for e in &emits {
      history.push(format!("{:>4}..{:<4} source {}", e.seq_start, e.seq_end, e.step.show()));
    }
    for p in &polls {
      history.push(format!("{:>4}..{:<4} poll -> {:?}", p.seq_start, p.seq_end, p.ready));
    }
    history.sort();
    if let Some(o) = outcome_violation(&res, blame) {
      // a deadlock here is the lost wake-up: task 0 parked with nobody left to notify
      v.push(o);
    } else {
      let expect_items: Vec<i64> = script.iter().filter_map(|s| if let Step::N(i) = s { Some(*i) } else { None }).collect();
      let expect = match script.last() {
        Some(Step::E(id)) => Err(*id),
        _ => Ok(expect_items),
      };
      if let Some(r2) = second.lock().unwrap().clone() {
        let first_result = polls.last().and_then(|p| p.ready.clone());
        if r2 != Some(expect.clone()) && !(watchdog >= 0 && r2 == first_result && r2 == Some(Err(9))) {
          v.push(Violation::new("wrong-result", blame, format!("a clone of the future, polled after the original had resolved, yielded {:?}; the source script {:?} demands {:?}", r2, script.iter().map(|s| s.show()).collect::<Vec<_>>(), expect)));
        }
      }
      match polls.last() {
        Some(PollRec { ready: Some(r), .. }) => {
          if *r != expect && !(watchdog >= 0 && *r == Err(9)) {
            v.push(Violation::new("wrong-result", blame, format!("future yielded {:?}, source script {:?} demands {:?}", r, script.iter().map(|s| s.show()).collect::<Vec<_>>(), expect)));
          }
        }
        _ => v.push(Violation::new("never-ready", blame, format!("future not ready after {} polls although the source terminated", polls.len()))),
      }
      for p in &polls {
        match (&p.ready, term_first_start, all_terms_done) {
          (Some(_), Some(t0), _) if p.seq_end < t0 => {
            v.push(Violation::new("ready-before-termination", blame, format!("poll returned Ready at {} before the source's terminal call started at {}", p.seq_end, t0)))
          }
          (Some(_), None, _) => v.push(Violation::new("ready-before-termination", blame, "poll returned Ready but the source never signalled a terminal".into())),
          (None, _, Some(t1)) if p.seq_start > t1 => {
            v.push(Violation::new("pending-after-termination", blame, format!("poll started at {} after the source's terminal call(s) had returned at {} and still returned Pending", p.seq_start, t1)))
          }
          _ => {}
        }
      }
    }
    let mut fp = 0u64;
    for h in &history {
      fp = fp.wrapping_mul(0x100000001B3) ^ fnv(h.split_whitespace().skip(1).collect::<Vec<_>>().join(" ").as_str());
    }
    let reach = vec![
      ("c18-polls-gt-1", (polls.len() > 1) as u64),
      ("c18-poll-overlaps-terminal-call", term.map_or(false, |t| polls.iter().any(|p| p.seq_start < t.seq_end && p.seq_end > t.seq_start)) as u64),
      ("c18-waker-woken", (*flag.wakes.lock().unwrap() > 0) as u64),
    ];
    RunOut { res, violations: v, fingerprint: fp, invalid: false, reach, history }
  }
}

//! Batch driver shared by all property checks: seeded generation, parallel simulated runs,
//! statistics, known-finding matching, minimisation, replay files, evidence files.

use crate::json::Json;
use rxsim_rt::prng::{splitmix, Rng};
use rxsim_rt::{Decision, Outcome, RunCfg, RunResult, Strategy};
use std::collections::{BTreeMap, HashSet};
use std::sync::atomic::{AtomicBool, AtomicU64, Ordering};
use std::sync::{Arc, Mutex};
use std::time::Instant;

#[derive(Clone, Copy, PartialEq, Eq, Debug)]
pub enum Tier {
  Quick,
  Thorough,
}

impl Tier {
  pub fn name(&self) -> &'static str {
    match self {
      Tier::Quick => "quick",
      Tier::Thorough => "thorough",
    }
  }
}

#[derive(Clone, Debug)]
pub struct Violation {
  /// violation class, e.g. "terminal-twice"
  pub class: String,
  /// blame unit: operator / subject type / call site
  pub blame: String,
  pub detail: String,
}

impl Violation {
  pub fn new(class: &str, blame: &str, detail: String) -> Violation {
    Violation { class: class.to_string(), blame: blame.to_string(), detail }
  }
}

pub struct RunOut {
  pub res: RunResult,
  pub violations: Vec<Violation>,
  /// hash of the recorded history (for the distinct-case measure)
  pub fingerprint: u64,
  /// workload could not be interpreted (only produced by the shrinker)
  pub invalid: bool,
  /// family-level reach probes
  pub reach: Vec<(&'static str, u64)>,
  /// printable history for reports
  pub history: Vec<String>,
}

impl RunOut {
  pub fn invalid() -> RunOut {
    RunOut {
      res: rxsim_rt::run(RunCfg::new(0), || {}),
      violations: Vec::new(),
      fingerprint: 0,
      invalid: true,
      reach: Vec::new(),
      history: Vec::new(),
    }
  }
}

/// how a simulated-run outcome other than Ok is to be judged by a family
pub fn outcome_violation(res: &RunResult, blame: &str) -> Option<Violation> {
  match &res.outcome {
    Outcome::Ok => None,
    o => Some(Violation::new(o.class(), blame, o.describe())),
  }
}

pub trait Family: Send + Sync {
  fn name(&self) -> &'static str;
  /// true if runs of this family have several tasks (changes the non-trivial rule)
  fn threaded(&self) -> bool;
  fn gen(&self, rng: &mut Rng, tier: Tier) -> Json;
  fn exec(&self, w: &Json, cfg: RunCfg) -> RunOut;
  /// knobs drawn per run (swarm); families may override
  fn knobs(&self, rng: &mut Rng, _w: &Json, _tier: Tier) -> Json {
    default_knobs(rng, self.threaded())
  }
  /// does the named predicate of a known finding explain this violation?
  fn explains(&self, _pred: &str, _w: &Json, _v: &Violation) -> bool {
    true
  }
  /// extra shrink candidates beyond the generic structural ones
  fn shrink(&self, _w: &Json) -> Vec<Json> {
    Vec::new()
  }
}

/// a family restricted to the workloads that satisfy a predicate (re-drawn until one does)
pub struct Only {
  pub inner: Box<dyn Family>,
  pub name: &'static str,
  pub pred: fn(&Json) -> bool,
}

impl Family for Only {
  fn name(&self) -> &'static str {
    self.name
  }
  fn threaded(&self) -> bool {
    self.inner.threaded()
  }
  fn gen(&self, rng: &mut Rng, tier: Tier) -> Json {
    loop {
      let w = self.inner.gen(rng, tier);
      if (self.pred)(&w) {
        return w;
      }
    }
  }
  fn knobs(&self, rng: &mut Rng, w: &Json, tier: Tier) -> Json {
    self.inner.knobs(rng, w, tier)
  }
  fn exec(&self, w: &Json, cfg: RunCfg) -> RunOut {
    if !(self.pred)(w) {
      return RunOut::invalid();
    }
    self.inner.exec(w, cfg)
  }
  fn explains(&self, pred: &str, w: &Json, v: &Violation) -> bool {
    self.inner.explains(pred, w, v)
  }
  fn shrink(&self, w: &Json) -> Vec<Json> {
    self.inner.shrink(w)
  }
}

pub fn default_knobs(rng: &mut Rng, threaded: bool) -> Json {
  let strategy = if !threaded {
    "random".to_string()
  } else {
    match rng.below(10) {
      0..=2 => "random".to_string(),
      3 => "sticky500".to_string(),
      4..=5 => "sticky800".to_string(),
      6 => "sticky950".to_string(),
      7 => "pct1".to_string(),
      8 => "pct2".to_string(),
      _ => "pct3".to_string(),
    }
  };
  Json::obj(vec![
    ("strategy", Json::str(strategy)),
    ("writer_pref", Json::Bool(rng.below(4) != 0)),
    ("spurious_permille", Json::Int(if threaded && rng.below(2) == 0 { *rng.pick(&[20i64, 50, 150]) } else { 0 })),
    ("jitter_ns", Json::Int(0)),
    ("hash_salt", Json::Int(rng.below(4) as i64)),
    ("release_points", Json::Bool(threaded && rng.below(3) == 0)),
  ])
}

pub fn cfg_from_knobs(seed: u64, k: &Json) -> RunCfg {
  let mut cfg = RunCfg::new(seed);
  let s = k.s("strategy");
  cfg.strategy = if let Some(p) = s.strip_prefix("sticky") {
    Strategy::Sticky(p.parse().unwrap_or(800))
  } else if let Some(d) = s.strip_prefix("pct") {
    Strategy::Pct { d: d.parse().unwrap_or(2), len: k.get("pct_len").and_then(|x| x.as_u64()).unwrap_or(150) as u32 }
  } else if let Some(t) = s.strip_prefix("starve") {
    Strategy::Starve(t.parse().unwrap_or(1))
  } else {
    Strategy::Random
  };
  cfg.writer_pref = k.get("writer_pref").and_then(|x| x.as_bool()).unwrap_or(true);
  cfg.spurious_permille = k.u("spurious_permille") as u32;
  cfg.jitter_max_ns = k.u("jitter_ns");
  cfg.hash_seed = seed ^ k.u("hash_salt").wrapping_mul(0x9E37_79B9_7F4A_7C15);
  cfg.release_points = k.b("release_points");
  if let Some(b) = k.get("step_budget").and_then(|x| x.as_u64()) {
    cfg.step_budget = b;
  }
  cfg
}

pub fn decisions_to_json(d: &[Decision]) -> Json {
  Json::Arr(d.iter().map(|x| Json::Arr(vec![Json::Int(x.kind as i64), Json::Int(x.n as i64), Json::Int(x.c as i64)])).collect())
}

pub fn decisions_from_json(j: &Json) -> Vec<Decision> {
  j.as_arr()
    .map(|a| {
      a.iter()
        .filter_map(|x| {
          let v = x.as_arr()?;
          Some(Decision { kind: v.first()?.as_i64()? as u8, n: v.get(1)?.as_i64()? as u32, c: v.get(2)?.as_i64()? as u32 })
        })
        .collect()
    })
    .unwrap_or_default()
}

pub fn fnv(s: &str) -> u64 {
  rxsim_rt::prng::hash_str(s)
}

// ------------------------------------------------------------------------------------------------
// known findings

#[derive(Clone, Debug)]
pub struct Known {
  pub witness: String,
  pub status: String,
  pub property: String,
  pub family: String,
  pub blame: String,
  pub class: String,
  pub explains: String,
  pub what: String,
}

pub fn load_known(verif_dir: &str) -> Vec<Known> {
  let p = format!("{}/known_findings.json", verif_dir);
  let s = match std::fs::read_to_string(&p) {
    Ok(s) => s,
    Err(_) => return Vec::new(),
  };
  let j = match Json::parse(&s) {
    Ok(j) => j,
    Err(e) => {
      eprintln!("HARNESS-ERROR: cannot parse {}: {}", p, e);
      std::process::exit(2);
    }
  };
  j.a("findings")
    .iter()
    .map(|f| Known {
      witness: f.s("witness"),
      status: f.s("status"),
      property: f.s("property"),
      family: f.s("family"),
      blame: f.s("blame"),
      class: f.s("class"),
      explains: f.s("explains"),
      what: f.s("what"),
    })
    .collect()
}

// ------------------------------------------------------------------------------------------------
// the check driver

pub struct FamilySpec {
  pub fam: Box<dyn Family>,
  /// runs in the quick / thorough tier
  pub quick_runs: u64,
  pub thorough_runs: u64,
}

pub struct CheckSpec {
  pub property: &'static str,
  pub level: &'static str,
  pub rule: String,
  pub assumptions: Vec<String>,
  pub families: Vec<FamilySpec>,
  /// wall-clock cap per tier in seconds (a run that hits it reports what it covered)
  pub quick_cap_s: u64,
  pub thorough_cap_s: u64,
}

#[derive(Default)]
struct FamStats {
  runs: u64,
  nontrivial_distinct: HashSet<u64>,
  distinct_schedules: HashSet<u64>,
  distinct_histories: HashSet<u64>,
  outcomes: BTreeMap<String, u64>,
  strategies: BTreeMap<String, u64>,
  faults: BTreeMap<String, u64>,
  reach: BTreeMap<String, u64>,
  sim_time_ns: u128,
  steps: u64,
  switches: u64,
  known_hits: BTreeMap<usize, u64>,
  samples: Vec<Json>,
  abandoned_threads: u64,
}

struct Found {
  fam_idx: usize,
  seed: u64,
  w: Json,
  knobs: Json,
  decisions: Vec<Decision>,
  v: Violation,
}

pub fn env_u64(name: &str, default: u64) -> u64 {
  std::env::var(name).ok().and_then(|s| s.trim().parse().ok()).unwrap_or(default)
}

pub fn verif_dir() -> String {
  std::env::var("VERIF_DIR").unwrap_or_else(|_| "/verif".to_string())
}

fn match_known(known: &[Known], prop: &str, fam: &dyn Family, w: &Json, v: &Violation) -> Option<usize> {
  known.iter().position(|k| {
    k.status == "open"
      && k.property == prop
      && (k.family.is_empty() || k.family == fam.name())
      && k.blame == v.blame
      && k.class == v.class
      && (k.explains.is_empty() || fam.explains(&k.explains, w, v))
  })
}

pub fn run_check(spec: CheckSpec, tier: Tier) -> i32 {
  let t0 = Instant::now();
  let base_seed = env_u64("VERIF_SEED", 1);
  let jobs = env_u64("VERIF_JOBS", 16).max(1) as usize;
  let vdir = verif_dir();
  // diagnostics for regenerating witness files: ignore the known-findings file / keep one class only
  let known = Arc::new(if std::env::var("VERIF_IGNORE_KNOWN").is_ok() { Vec::new() } else { load_known(&vdir) });
  let only_class = std::env::var("VERIF_ONLY_CLASS").ok();
  let cap_s = match tier {
    Tier::Quick => spec.quick_cap_s,
    Tier::Thorough => spec.thorough_cap_s,
  };
  let spec = Arc::new(spec);
  let nfam = spec.families.len();
  let stats: Arc<Vec<Mutex<FamStats>>> = Arc::new((0..nfam).map(|_| Mutex::new(FamStats::default())).collect());
  let found: Arc<Mutex<Vec<Found>>> = Arc::new(Mutex::new(Vec::new()));
  let stop = Arc::new(AtomicBool::new(false));
  let capped = Arc::new(AtomicBool::new(false));
  // real-time watchdog outside the simulated runs: code under test that blocks in a primitive the
  // facade does not wrap (while it holds the baton, or on the driver thread itself) can never be
  // unblocked from inside the run; that is a harness error (exit 2), never a hang
  let started: Arc<Vec<AtomicU64>> = Arc::new((0..jobs).map(|_| AtomicU64::new(0)).collect());
  {
    let started = started.clone();
    let prop = spec.property;
    std::thread::spawn(move || loop {
      std::thread::sleep(std::time::Duration::from_secs(2));
      let now = t0.elapsed().as_millis() as u64 + 1;
      for s in started.iter() {
        let v = s.load(Ordering::Relaxed);
        if v != 0 && now.saturating_sub(v) > 300_000 {
          println!("HARNESS-ERROR: property={} a simulated run has made no progress for 300 s of real time: the code under test blocks in a primitive the simulator does not control", prop);
          std::process::exit(2);
        }
      }
    });
  }

  for fi in 0..nfam {
    let total = match tier {
      Tier::Quick => spec.families[fi].quick_runs,
      Tier::Thorough => spec.families[fi].thorough_runs,
    };
    let next = Arc::new(AtomicU64::new(0));
    let mut hs = Vec::new();
    for job in 0..jobs {
      let spec = spec.clone();
      let started = started.clone();
      let stats = stats.clone();
      let found = found.clone();
      let only_class = only_class.clone();
      let stop = stop.clone();
      let capped = capped.clone();
      let next = next.clone();
      let known = known.clone();
      hs.push(
        std::thread::Builder::new()
          .stack_size(128 << 20)
          .spawn(move || {
            let fam = &*spec.families[fi].fam;
            let mut local = FamStats::default();
            loop {
              if stop.load(Ordering::Relaxed) {
                break;
              }
              if t0.elapsed().as_secs() >= cap_s {
                capped.store(true, Ordering::Relaxed);
                break;
              }
              let i = next.fetch_add(1, Ordering::Relaxed);
              if i >= total {
                break;
              }
              let mut x = base_seed.wrapping_mul(0x1000_0000_01B3).wrapping_add(fnv(fam.name())).wrapping_add(i);
              let seed = splitmix(&mut x) >> 11; // < 2^53
              let mut wr = Rng::stream(seed, "workload");
              let w = fam.gen(&mut wr, tier);
              let mut kr = Rng::stream(seed, "knobs");
              let knobs = fam.knobs(&mut kr, &w, tier);
              let cfg = cfg_from_knobs(seed, &knobs);
              started[job].store(t0.elapsed().as_millis() as u64 + 1, Ordering::Relaxed);
              let out = fam.exec(&w, cfg);
              started[job].store(0, Ordering::Relaxed);
              if out.invalid {
                eprintln!("HARNESS-ERROR: family {} generated a workload it cannot execute: {}", fam.name(), w.to_string());
                std::process::exit(2);
              }
              local.runs += 1;
              let wh = fnv(&w.to_string());
              local.distinct_schedules.insert(wh ^ out.res.trace_hash);
              local.distinct_histories.insert(wh.rotate_left(7) ^ out.fingerprint);
              let nontrivial = if fam.threaded() {
                out.res.switches >= 1 || out.res.faults.spurious + out.res.faults.jitter >= 1
              } else {
                !out.history.is_empty()
              };
              if nontrivial {
                local.nontrivial_distinct.insert(wh ^ out.res.trace_hash.rotate_left(13) ^ out.fingerprint);
              }
              *local.outcomes.entry(out.res.outcome.class().to_string()).or_insert(0) += 1;
              *local.strategies.entry(knobs.s("strategy")).or_insert(0) += 1;
              *local.faults.entry("spurious_wakeup".into()).or_insert(0) += out.res.faults.spurious;
              *local.faults.entry("timer_jitter".into()).or_insert(0) += out.res.faults.jitter;
              if !knobs.b("writer_pref") {
                *local.faults.entry("rwlock_reader_preferring_policy".into()).or_insert(0) += 1;
              }
              if knobs.b("release_points") {
                *local.faults.entry("scheduling_point_at_lock_release".into()).or_insert(0) += 1;
              }
              if knobs.u("hash_salt") != 0 {
                *local.faults.entry("hash_order_perturbed".into()).or_insert(0) += 1;
              }
              for (k, v) in &out.reach {
                *local.reach.entry(k.to_string()).or_insert(0) += v;
              }
              for (k, v) in &out.res.counters {
                *local.reach.entry(k.to_string()).or_insert(0) += v;
              }
              local.sim_time_ns += out.res.sim_time_ns as u128;
              local.steps += out.res.steps;
              local.switches += out.res.switches;
              local.abandoned_threads += out.res.abandoned_os_threads as u64;
              if local.samples.len() < 2 && (i % 97 == 3 || i < 2) {
                local.samples.push(Json::obj(vec![
                  ("family", Json::str(fam.name())),
                  ("seed", Json::Int(seed as i64)),
                  ("workload", w.clone()),
                  ("knobs", knobs.clone()),
                  ("n_decisions", Json::Int(out.res.decisions.len() as i64)),
                  ("history", Json::arr(out.history.iter().take(40), |s| Json::str(s.clone()))),
                  ("outcome", Json::str(out.res.outcome.class())),
                ]));
              }
              for v in out.violations {
                if only_class.as_ref().map_or(false, |c| *c != v.class) {
                  continue;
                }
                match match_known(&known, spec.property, fam, &w, &v) {
                  Some(k) => {
                    *local.known_hits.entry(k).or_insert(0) += 1;
                  }
                  None => {
                    let mut f = found.lock().unwrap();
                    f.push(Found { fam_idx: fi, seed, w: w.clone(), knobs: knobs.clone(), decisions: out.res.decisions.clone(), v });
                    if f.len() >= 1 {
                      stop.store(true, Ordering::Relaxed);
                    }
                    break;
                  }
                }
              }
            }
            // merge
            let mut g = stats[fi].lock().unwrap();
            g.runs += local.runs;
            g.nontrivial_distinct.extend(local.nontrivial_distinct);
            g.distinct_schedules.extend(local.distinct_schedules);
            g.distinct_histories.extend(local.distinct_histories);
            for (k, v) in local.outcomes {
              *g.outcomes.entry(k).or_insert(0) += v;
            }
            for (k, v) in local.strategies {
              *g.strategies.entry(k).or_insert(0) += v;
            }
            for (k, v) in local.faults {
              *g.faults.entry(k).or_insert(0) += v;
            }
            for (k, v) in local.reach {
              *g.reach.entry(k).or_insert(0) += v;
            }
            for (k, v) in local.known_hits {
              *g.known_hits.entry(k).or_insert(0) += v;
            }
            g.sim_time_ns += local.sim_time_ns;
            g.steps += local.steps;
            g.switches += local.switches;
            g.abandoned_threads += local.abandoned_threads;
            if g.samples.len() < 4 {
              g.samples.extend(local.samples);
            }
          })
          .unwrap(),
      );
    }
    for h in hs {
      let _ = h.join();
    }
    if stop.load(Ordering::Relaxed) {
      break;
    }
  }

  // ---- every open finding of this property is re-established from its committed witness file,
  // so that its KNOWN-FINDING line does not depend on the batch happening to hit it
  let mut witness_hits: BTreeMap<usize, u64> = BTreeMap::new();
  for (ki, k) in known.iter().enumerate() {
    if k.status != "open" || k.property != spec.property || k.witness.is_empty() {
      continue;
    }
    let path = format!("{}/{}", vdir, k.witness);
    let j = match std::fs::read_to_string(&path).ok().and_then(|s| Json::parse(&s).ok()) {
      Some(j) => j,
      None => continue,
    };
    let fname = j.s("family");
    if let Some(fs) = spec.families.iter().find(|f| f.fam.name() == fname) {
      let fam = &*fs.fam;
      let w = j.get("workload").cloned().unwrap_or(Json::Null);
      let knobs = j.get("knobs").cloned().unwrap_or(Json::Null);
      let mut cfg = cfg_from_knobs(j.u("seed"), &knobs);
      cfg.replay = Some(decisions_from_json(j.get("decisions").unwrap_or(&Json::Null)));
      let out = fam.exec(&w, cfg);
      if !out.invalid && out.violations.iter().any(|v| match_known(&known, spec.property, fam, &w, v) == Some(ki)) {
        witness_hits.insert(ki, 1);
      }
    }
  }

  // ---- report
  let mut exit = 0;
  let mut n_viol = 0;
  let mut replay_paths = Vec::new();
  let founds = std::mem::take(&mut *found.lock().unwrap());
  for f in founds.into_iter().take(1) {
    n_viol += 1;
    let fam = &*spec.families[f.fam_idx].fam;
    let path = minimise_and_write(spec.property, fam, f, &vdir, &known);
    println!("VIOLATION property={} replay={}", spec.property, path);
    replay_paths.push(path);
    exit = 1;
  }
  let mut known_lines = BTreeMap::new();
  for fi in 0..nfam {
    for (k, n) in &stats[fi].lock().unwrap().known_hits {
      *known_lines.entry(*k).or_insert(0u64) += n;
    }
  }
  for (k, n) in witness_hits {
    *known_lines.entry(k).or_insert(0u64) += n;
  }
  for (k, n) in &known_lines {
    println!("KNOWN-FINDING: property={} {} [blame={} class={} hits={}]", spec.property, known[*k].what, known[*k].blame, known[*k].class, n);
  }

  // ---- evidence
  let wall = t0.elapsed().as_secs_f64();
  let mut evaluations = 0u64;
  let mut distinct = 0u64;
  let mut fams = Vec::new();
  let mut samples = Vec::new();
  let mut sim_ns: u128 = 0;
  let mut faults_total: BTreeMap<String, u64> = BTreeMap::new();
  for fi in 0..nfam {
    let g = stats[fi].lock().unwrap();
    evaluations += g.runs;
    distinct += g.nontrivial_distinct.len() as u64;
    sim_ns += g.sim_time_ns;
    for (k, v) in &g.faults {
      *faults_total.entry(k.clone()).or_insert(0) += v;
    }
    samples.extend(g.samples.iter().take(2).cloned());
    let m = |m: &BTreeMap<String, u64>| Json::Obj(m.iter().map(|(k, v)| (k.clone(), Json::Int(*v as i64))).collect());
    fams.push(Json::obj(vec![
      ("family", Json::str(spec.families[fi].fam.name())),
      ("runs", Json::Int(g.runs as i64)),
      ("distinct_nontrivial", Json::Int(g.nontrivial_distinct.len() as i64)),
      ("distinct_schedules", Json::Int(g.distinct_schedules.len() as i64)),
      ("distinct_histories", Json::Int(g.distinct_histories.len() as i64)),
      ("outcomes", m(&g.outcomes)),
      ("strategies", m(&g.strategies)),
      ("faults_fired", m(&g.faults)),
      ("reach_probes", m(&g.reach)),
      ("scheduling_points", Json::Int(g.steps as i64)),
      ("context_switches", Json::Int(g.switches as i64)),
      ("simulated_time_s", Json::Num(g.sim_time_ns as f64 / 1e9)),
      ("os_threads_abandoned", Json::Int(g.abandoned_threads as i64)),
    ]));
  }
  let ev = Json::obj(vec![
    ("property_id", Json::str(spec.property)),
    ("tier", Json::str(tier.name())),
    ("seed", Json::Int(base_seed as i64)),
    ("level", Json::str(spec.level)),
    (
      "coverage",
      Json::obj(vec![
        ("evaluations", Json::Int(evaluations as i64)),
        ("distinct_nontrivial", Json::Int(distinct as i64)),
        ("rule", Json::str(spec.rule.clone())),
        ("samples", Json::Arr(samples)),
        ("families", Json::Arr(fams)),
        ("runs_per_hour", Json::Int((evaluations as f64 / wall.max(0.001) * 3600.0) as i64)),
        ("simulated_time_s", Json::Num(sim_ns as f64 / 1e9)),
        ("faults_fired", Json::Obj(faults_total.iter().map(|(k, v)| (k.clone(), Json::Int(*v as i64))).collect())),
        ("seeds", Json::str(format!("run i of a family uses splitmix64(VERIF_SEED*0x100000001B3 + fnv(family) + i) >> 11, VERIF_SEED={}", base_seed))),
        ("wall_cap_hit", Json::Bool(capped.load(Ordering::Relaxed))),
        ("known_findings_hit", Json::Int(known_lines.len() as i64)),
        ("replay_files", Json::arr(replay_paths.iter(), |p| Json::str(p.clone()))),
        (
          "components_real",
          Json::str("every line of another-rxrust compiled from /repo's working tree (operators, subjects, schedulers, FunctionWrapper, StreamController)"),
        ),
        (
          "components_stub",
          Json::str("std::sync::{RwLock,Mutex,Condvar}, std::thread::{spawn,sleep,yield_now}, std::time::{Instant,SystemTime} -> rxsim-rt facade (scheduler-controlled, virtual clock); HashMap RandomState -> seeded hasher; user code (sources, subscribers, executors) -> scripted harness code"),
        ),
      ]),
    ),
    ("assumptions", Json::arr(spec.assumptions.iter(), |s| Json::str(s.clone()))),
    ("wall_s", Json::Num((wall * 100.0).round() / 100.0)),
    ("violations", Json::Int(n_viol)),
  ]);
  let edir = std::env::var("VERIF_EVIDENCE_DIR").unwrap_or_else(|_| format!("{}/evidence", vdir));
  let _ = std::fs::create_dir_all(&edir);
  let epath = format!("{}/{}.json", edir, spec.property);
  if let Err(e) = std::fs::write(&epath, ev.pretty() + "\n") {
    eprintln!("HARNESS-ERROR: cannot write {}: {}", epath, e);
    return 2;
  }
  println!(
    "{} {} tier={} seed={} runs={} distinct_nontrivial={} wall={:.1}s{}",
    if exit == 0 { "OK" } else { "FAIL" },
    spec.property,
    tier.name(),
    base_seed,
    evaluations,
    distinct,
    wall,
    if capped.load(Ordering::Relaxed) { " (wall cap hit)" } else { "" }
  );
  exit
}

// ------------------------------------------------------------------------------------------------
// minimisation and replay files

fn same_violation(out: &RunOut, class: &str, blame: &str, keep: &dyn Fn(&Violation) -> bool) -> Option<Violation> {
  if out.invalid {
    return None;
  }
  out.violations.iter().find(|v| v.class == class && v.blame == blame && keep(v)).cloned()
}

/// generic structural shrink candidates of a JSON workload: drop array elements, shrink ints
pub fn json_shrinks(w: &Json) -> Vec<Json> {
  let mut out = Vec::new();
  fn rec(root: &Json, path: &mut Vec<PathEl>, cur: &Json, out: &mut Vec<Json>) {
    match cur {
      Json::Arr(a) => {
        for i in 0..a.len() {
          let mut b = a.clone();
          b.remove(i);
          out.push(replace_at(root, path, Json::Arr(b)));
        }
        for (i, v) in a.iter().enumerate() {
          path.push(PathEl::Idx(i));
          rec(root, path, v, out);
          path.pop();
        }
      }
      Json::Obj(m) => {
        if !path.is_empty() {
          out.push(replace_at(root, path, Json::Null));
        }
        for (k, v) in m {
          path.push(PathEl::Key(k.clone()));
          rec(root, path, v, out);
          path.pop();
        }
      }
      Json::Int(i) if *i > 0 => {
        out.push(replace_at(root, path, Json::Int(0)));
        if *i > 1 {
          out.push(replace_at(root, path, Json::Int(i / 2)));
          out.push(replace_at(root, path, Json::Int(i - 1)));
        }
      }
      Json::Bool(true) => out.push(replace_at(root, path, Json::Bool(false))),
      _ => {}
    }
  }
  rec(w, &mut Vec::new(), w, &mut out);
  out
}

#[derive(Clone)]
enum PathEl {
  Idx(usize),
  Key(String),
}

fn replace_at(root: &Json, path: &[PathEl], new: Json) -> Json {
  if path.is_empty() {
    return new;
  }
  match (root, &path[0]) {
    (Json::Arr(a), PathEl::Idx(i)) => {
      let mut b = a.clone();
      b[*i] = replace_at(&a[*i], &path[1..], new);
      Json::Arr(b)
    }
    (Json::Obj(m), PathEl::Key(k)) => {
      let mut n = m.clone();
      n.insert(k.clone(), replace_at(&m[k], &path[1..], new));
      Json::Obj(n)
    }
    _ => root.clone(),
  }
}

fn minimise_and_write(prop: &str, fam: &dyn Family, f: Found, vdir: &str, known: &[Known]) -> String {
  let t0 = Instant::now();
  let budget_s = env_u64("VERIF_MINIMISE_S", 40);
  let (class, blame) = (f.v.class.clone(), f.v.blame.clone());
  let mut w = f.w.clone();
  let knobs = f.knobs.clone();
  let mut decisions = f.decisions.clone();
  let mut viol = f.v.clone();
  let try_run = |w: &Json, dec: Option<&[Decision]>, seed: u64| -> Option<(Violation, Vec<Decision>)> {
    let mut cfg = cfg_from_knobs(seed, &knobs);
    // keep the hash order of the original run
    cfg.hash_seed = f.seed ^ knobs.u("hash_salt").wrapping_mul(0x9E37_79B9_7F4A_7C15);
    if let Some(d) = dec {
      cfg.replay = Some(d.to_vec());
    }
    let out = fam.exec(w, cfg);
    // a candidate must not drift into a violation that a known finding explains
    same_violation(&out, &class, &blame, &|v| match_known(known, prop, fam, w, v).is_none()).map(|v| (v, out.res.decisions))
  };
  // 0. confirm the original reproduces from its decision list
  let reproduces = try_run(&w, Some(&decisions), f.seed).is_some();
  // 1. shrink the workload
  let mut progress = true;
  let mut rounds = 0;
  while progress && t0.elapsed().as_secs() < budget_s && rounds < 200 {
    progress = false;
    rounds += 1;
    let mut cands = fam.shrink(&w);
    cands.extend(json_shrinks(&w));
    for c in cands {
      if t0.elapsed().as_secs() >= budget_s {
        break;
      }
      let mut hit = try_run(&c, Some(&decisions), f.seed);
      if hit.is_none() && fam.threaded() {
        for k in 0..80u64 {
          hit = try_run(&c, None, f.seed.wrapping_add(k * 7919 + 1) & ((1 << 53) - 1));
          if hit.is_some() {
            break;
          }
        }
      } else if hit.is_none() {
        hit = try_run(&c, None, f.seed);
      }
      if let Some((v, d)) = hit {
        w = c;
        viol = v;
        decisions = d;
        progress = true;
        break;
      }
    }
  }
  // 2. shrink the decision list (ddmin-style chunk removal, then zeroing)
  if !decisions.is_empty() {
    let mut chunk = decisions.len().max(2) / 2;
    while chunk >= 1 && t0.elapsed().as_secs() < budget_s + 20 {
      let mut i = 0;
      let mut any = false;
      while i < decisions.len() && t0.elapsed().as_secs() < budget_s + 20 {
        let mut cand = decisions.clone();
        let end = (i + chunk).min(cand.len());
        cand.drain(i..end);
        if let Some((v, _)) = try_run(&w, Some(&cand), f.seed) {
          decisions = cand;
          viol = v;
          any = true;
        } else {
          i += chunk;
        }
      }
      if chunk == 1 && !any {
        break;
      }
      if chunk > 1 {
        chunk /= 2;
      } else if !any {
        break;
      }
    }
    for i in 0..decisions.len() {
      if decisions[i].c != 0 && t0.elapsed().as_secs() < budget_s + 30 {
        let mut cand = decisions.clone();
        cand[i].c = 0;
        if let Some((v, _)) = try_run(&w, Some(&cand), f.seed) {
          decisions = cand;
          viol = v;
        }
      }
    }
    // drop trailing zero decisions (exhausted list = default = 0)
    while decisions.last().map_or(false, |d| d.c == 0) {
      decisions.pop();
    }
  }
  // 3. final confirmation run with trace
  let mut cfg = cfg_from_knobs(f.seed, &knobs);
  cfg.hash_seed = f.seed ^ knobs.u("hash_salt").wrapping_mul(0x9E37_79B9_7F4A_7C15);
  cfg.replay = Some(decisions.clone());
  cfg.trace = true;
  let out = fam.exec(&w, cfg);
  let confirmed = same_violation(&out, &class, &blame, &|_| true).is_some();
  let trace: Vec<String> = out.res.trace.iter().rev().take(300).rev().cloned().collect();
  let j = Json::obj(vec![
    ("property", Json::str(prop)),
    ("family", Json::str(fam.name())),
    ("seed", Json::Int(f.seed as i64)),
    ("knobs", knobs.clone()),
    ("workload", w.clone()),
    ("decisions", decisions_to_json(&decisions)),
    (
      "violation",
      Json::obj(vec![("class", Json::str(viol.class.clone())), ("blame", Json::str(viol.blame.clone())), ("detail", Json::str(viol.detail.clone()))]),
    ),
    ("original_workload", f.w.clone()),
    ("original_n_decisions", Json::Int(f.decisions.len() as i64)),
    ("original_reproduced_from_decisions", Json::Bool(reproduces)),
    ("minimised_confirmed", Json::Bool(confirmed)),
    ("history", Json::arr(out.history.iter(), |s| Json::str(s.clone()))),
    ("trace", Json::arr(trace.iter(), |s| Json::str(s.clone()))),
  ]);
  let dir = std::env::var("VERIF_REPLAY_DIR").unwrap_or_else(|_| format!("{}/replays", vdir));
  let _ = std::fs::create_dir_all(&dir);
  let path = format!("{}/{}-{}-{:08x}.json", dir, prop, f.seed, fnv(&w.to_string()) as u32);
  let _ = std::fs::write(&path, j.pretty() + "\n");
  eprintln!("violation: property={} family={} class={} blame={}\n  detail: {}", prop, fam.name(), viol.class, viol.blame, viol.detail);
  eprintln!("  minimised workload: {}", w.to_string());
  eprintln!("  decisions: {} (originally {}), reproduced={} confirmed={}", decisions.len(), f.decisions.len(), reproduces, confirmed);
  for h in out.history.iter().take(60) {
    eprintln!("    {}", h);
  }
  path
}

/// `replay <file>`: exit 1 + VIOLATION line if it reproduces, 2 if it diverged
pub fn replay_file(path: &str, fams: Vec<Box<dyn Family>>) -> i32 {
  let s = match std::fs::read_to_string(path) {
    Ok(s) => s,
    Err(e) => {
      eprintln!("HARNESS-ERROR: cannot read {}: {}", path, e);
      return 2;
    }
  };
  let j = match Json::parse(&s) {
    Ok(j) => j,
    Err(e) => {
      eprintln!("HARNESS-ERROR: cannot parse {}: {}", path, e);
      return 2;
    }
  };
  let fname = j.s("family");
  let fam = match fams.iter().find(|f| f.name() == fname) {
    Some(f) => f,
    None => {
      eprintln!("HARNESS-ERROR: unknown family {}", fname);
      return 2;
    }
  };
  let seed = j.u("seed");
  let knobs = j.get("knobs").cloned().unwrap_or(Json::Null);
  let w = j.get("workload").cloned().unwrap_or(Json::Null);
  let dec = decisions_from_json(j.get("decisions").unwrap_or(&Json::Null));
  let mut cfg = cfg_from_knobs(seed, &knobs);
  cfg.replay = Some(dec);
  cfg.trace = true;
  let out = fam.exec(&w, cfg);
  let class = j.get("violation").map(|v| v.s("class")).unwrap_or_default();
  let blame = j.get("violation").map(|v| v.s("blame")).unwrap_or_default();
  for h in &out.history {
    println!("  {}", h);
  }
  println!("outcome: {}", out.res.outcome.describe());
  for v in &out.violations {
    println!("violation: class={} blame={} detail={}", v.class, v.blame, v.detail);
  }
  if same_violation(&out, &class, &blame, &|_| true).is_some() {
    println!("VIOLATION property={} replay={}", j.s("property"), path);
    1
  } else if out.violations.is_empty() {
    println!("replay did not reproduce the recorded violation (class={} blame={}) on this tree", class, blame);
    if std::env::var("VERIF_REPLAY_EXPECT").is_ok() {
      2
    } else {
      0
    }
  } else {
    println!("replay produced a different violation than recorded (class={} blame={})", class, blame);
    1
  }
}

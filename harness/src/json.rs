//! Minimal JSON value, printer and parser (no third-party crates in the harness).

use std::collections::BTreeMap;
use std::fmt::Write;

#[derive(Clone, Debug, PartialEq)]
pub enum Json {
  Null,
  Bool(bool),
  Int(i64),
  Num(f64),
  Str(String),
  Arr(Vec<Json>),
  Obj(BTreeMap<String, Json>),
}

impl Json {
  pub fn obj(kv: Vec<(&str, Json)>) -> Json {
    Json::Obj(kv.into_iter().map(|(k, v)| (k.to_string(), v)).collect())
  }
  pub fn str(s: impl Into<String>) -> Json {
    Json::Str(s.into())
  }
  pub fn arr<T>(xs: impl IntoIterator<Item = T>, f: impl Fn(T) -> Json) -> Json {
    Json::Arr(xs.into_iter().map(f).collect())
  }
  pub fn get(&self, k: &str) -> Option<&Json> {
    match self {
      Json::Obj(m) => m.get(k),
      _ => None,
    }
  }
  pub fn as_i64(&self) -> Option<i64> {
    match self {
      Json::Int(i) => Some(*i),
      Json::Num(f) => Some(*f as i64),
      _ => None,
    }
  }
  pub fn as_u64(&self) -> Option<u64> {
    self.as_i64().map(|x| x as u64)
  }
  pub fn as_str(&self) -> Option<&str> {
    match self {
      Json::Str(s) => Some(s),
      _ => None,
    }
  }
  pub fn as_bool(&self) -> Option<bool> {
    match self {
      Json::Bool(b) => Some(*b),
      _ => None,
    }
  }
  pub fn as_arr(&self) -> Option<&Vec<Json>> {
    match self {
      Json::Arr(a) => Some(a),
      _ => None,
    }
  }
  pub fn i(&self, k: &str) -> i64 {
    self.get(k).and_then(|x| x.as_i64()).unwrap_or(0)
  }
  pub fn u(&self, k: &str) -> u64 {
    self.get(k).and_then(|x| x.as_u64()).unwrap_or(0)
  }
  pub fn s(&self, k: &str) -> String {
    self.get(k).and_then(|x| x.as_str()).unwrap_or("").to_string()
  }
  pub fn b(&self, k: &str) -> bool {
    self.get(k).and_then(|x| x.as_bool()).unwrap_or(false)
  }
  pub fn a(&self, k: &str) -> Vec<Json> {
    self.get(k).and_then(|x| x.as_arr()).cloned().unwrap_or_default()
  }

  pub fn to_string(&self) -> String {
    let mut s = String::new();
    self.write(&mut s);
    s
  }
  pub fn pretty(&self) -> String {
    let mut s = String::new();
    self.write_pretty(&mut s, 0);
    s
  }
  fn write_pretty(&self, o: &mut String, ind: usize) {
    match self {
      Json::Obj(m) if !m.is_empty() => {
        o.push_str("{\n");
        let n = m.len();
        for (i, (k, v)) in m.iter().enumerate() {
          for _ in 0..ind + 1 {
            o.push(' ');
          }
          Json::Str(k.clone()).write(o);
          o.push_str(": ");
          // arrays of scalars / small values stay on one line
          if v.to_string().len() <= 100 {
            v.write(o);
          } else {
            v.write_pretty(o, ind + 1);
          }
          if i + 1 < n {
            o.push(',');
          }
          o.push('\n');
        }
        for _ in 0..ind {
          o.push(' ');
        }
        o.push('}');
      }
      Json::Arr(a) if !a.is_empty() && self.to_string().len() > 100 => {
        o.push_str("[\n");
        let n = a.len();
        for (i, v) in a.iter().enumerate() {
          for _ in 0..ind + 1 {
            o.push(' ');
          }
          if v.to_string().len() <= 160 {
            v.write(o);
          } else {
            v.write_pretty(o, ind + 1);
          }
          if i + 1 < n {
            o.push(',');
          }
          o.push('\n');
        }
        for _ in 0..ind {
          o.push(' ');
        }
        o.push(']');
      }
      _ => self.write(o),
    }
  }
  fn write(&self, o: &mut String) {
    match self {
      Json::Null => o.push_str("null"),
      Json::Bool(b) => o.push_str(if *b { "true" } else { "false" }),
      Json::Int(i) => {
        let _ = write!(o, "{}", i);
      }
      Json::Num(f) => {
        if f.is_finite() {
          let _ = write!(o, "{}", f);
          if f.fract() == 0.0 && !o.ends_with(|c: char| c == 'e') && !format!("{}", f).contains('.') && !format!("{}", f).contains('e') {
            o.push_str(".0");
          }
        } else {
          o.push_str("null");
        }
      }
      Json::Str(s) => {
        o.push('"');
        for c in s.chars() {
          match c {
            '"' => o.push_str("\\\""),
            '\\' => o.push_str("\\\\"),
            '\n' => o.push_str("\\n"),
            '\r' => o.push_str("\\r"),
            '\t' => o.push_str("\\t"),
            c if (c as u32) < 0x20 => {
              let _ = write!(o, "\\u{:04x}", c as u32);
            }
            c => o.push(c),
          }
        }
        o.push('"');
      }
      Json::Arr(a) => {
        o.push('[');
        for (i, v) in a.iter().enumerate() {
          if i > 0 {
            o.push(',');
          }
          v.write(o);
        }
        o.push(']');
      }
      Json::Obj(m) => {
        o.push('{');
        for (i, (k, v)) in m.iter().enumerate() {
          if i > 0 {
            o.push(',');
          }
          Json::Str(k.clone()).write(o);
          o.push(':');
          v.write(o);
        }
        o.push('}');
      }
    }
  }

  pub fn parse(s: &str) -> Result<Json, String> {
    let b = s.as_bytes();
    let mut p = 0usize;
    let v = parse_val(b, &mut p)?;
    skip_ws(b, &mut p);
    if p != b.len() {
      return Err(format!("trailing data at {}", p));
    }
    Ok(v)
  }
}

fn skip_ws(b: &[u8], p: &mut usize) {
  while *p < b.len() && (b[*p] == b' ' || b[*p] == b'\n' || b[*p] == b'\r' || b[*p] == b'\t') {
    *p += 1;
  }
}

fn parse_val(b: &[u8], p: &mut usize) -> Result<Json, String> {
  skip_ws(b, p);
  if *p >= b.len() {
    return Err("unexpected end".into());
  }
  match b[*p] {
    b'{' => {
      *p += 1;
      let mut m = BTreeMap::new();
      skip_ws(b, p);
      if *p < b.len() && b[*p] == b'}' {
        *p += 1;
        return Ok(Json::Obj(m));
      }
      loop {
        skip_ws(b, p);
        let k = match parse_val(b, p)? {
          Json::Str(s) => s,
          _ => return Err("object key must be a string".into()),
        };
        skip_ws(b, p);
        if *p >= b.len() || b[*p] != b':' {
          return Err(format!("expected ':' at {}", p));
        }
        *p += 1;
        let v = parse_val(b, p)?;
        m.insert(k, v);
        skip_ws(b, p);
        if *p < b.len() && b[*p] == b',' {
          *p += 1;
          continue;
        }
        if *p < b.len() && b[*p] == b'}' {
          *p += 1;
          return Ok(Json::Obj(m));
        }
        return Err(format!("expected ',' or '}}' at {}", p));
      }
    }
    b'[' => {
      *p += 1;
      let mut a = Vec::new();
      skip_ws(b, p);
      if *p < b.len() && b[*p] == b']' {
        *p += 1;
        return Ok(Json::Arr(a));
      }
      loop {
        a.push(parse_val(b, p)?);
        skip_ws(b, p);
        if *p < b.len() && b[*p] == b',' {
          *p += 1;
          continue;
        }
        if *p < b.len() && b[*p] == b']' {
          *p += 1;
          return Ok(Json::Arr(a));
        }
        return Err(format!("expected ',' or ']' at {}", p));
      }
    }
    b'"' => {
      *p += 1;
      let mut s = Vec::new();
      while *p < b.len() {
        let c = b[*p];
        *p += 1;
        match c {
          b'"' => return String::from_utf8(s).map(Json::Str).map_err(|e| e.to_string()),
          b'\\' => {
            if *p >= b.len() {
              return Err("bad escape".into());
            }
            let e = b[*p];
            *p += 1;
            match e {
              b'n' => s.push(b'\n'),
              b't' => s.push(b'\t'),
              b'r' => s.push(b'\r'),
              b'b' => s.push(8),
              b'f' => s.push(12),
              b'u' => {
                let h = std::str::from_utf8(&b[*p..(*p + 4).min(b.len())]).map_err(|e| e.to_string())?;
                let cp = u32::from_str_radix(h, 16).map_err(|e| e.to_string())?;
                *p += 4;
                let ch = char::from_u32(cp).unwrap_or('?');
                let mut buf = [0u8; 4];
                s.extend_from_slice(ch.encode_utf8(&mut buf).as_bytes());
              }
              other => s.push(other),
            }
          }
          c => s.push(c),
        }
      }
      Err("unterminated string".into())
    }
    b't' if b[*p..].starts_with(b"true") => {
      *p += 4;
      Ok(Json::Bool(true))
    }
    b'f' if b[*p..].starts_with(b"false") => {
      *p += 5;
      Ok(Json::Bool(false))
    }
    b'n' if b[*p..].starts_with(b"null") => {
      *p += 4;
      Ok(Json::Null)
    }
    _ => {
      let st = *p;
      while *p < b.len() && (b[*p] == b'-' || b[*p] == b'+' || b[*p] == b'.' || b[*p] == b'e' || b[*p] == b'E' || b[*p].is_ascii_digit()) {
        *p += 1;
      }
      let t = std::str::from_utf8(&b[st..*p]).map_err(|e| e.to_string())?;
      if let Ok(i) = t.parse::<i64>() {
        Ok(Json::Int(i))
      } else if let Ok(u) = t.parse::<u64>() {
        Ok(Json::Int(u as i64))
      } else {
        t.parse::<f64>().map(Json::Num).map_err(|_| format!("bad number '{}' at {}", t, st))
      }
    }
  }
}

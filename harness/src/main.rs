//! rxsim - deterministic simulation with fault injection for another-rxrust.
//! See /verif/DESIGN.md. Invoked through /verif/bin/check.

mod c01;
mod c03;
mod c04;
mod c05;
mod c06;
mod c07;
mod c08;
mod c09;
mod c10;
mod c12;
mod c13;
mod c14;
mod c17;
mod c18;
mod common;
mod json;
mod pipe;
mod rec;
mod seq;
mod thr_ops;
mod timed;
mod val;

use common::*;

fn c07_families() -> Vec<(Box<dyn Family>, u64)> {
  let w = |inner: Box<dyn Family>, name: &'static str, q: u64| -> (Box<dyn Family>, u64) { (Box::new(c07::Wrap { inner, name }), q) };
  vec![
    (Box::new(c07::Reenter), 150_000),
    w(Box::new(c05::C05Thr), "c07/c05-unsubscribe-threaded", 40_000),
    w(Box::new(c08::C08), "c07/c08-scheduler-queue", 60_000),
    w(Box::new(c09::C09), "c07/c09-observe-subscribe-on", 40_000),
    w(Box::new(thr_ops::C11), "c07/c11-combinators-threads", 40_000),
    w(Box::new(c12::C12), "c07/c12-subjects-threads", 40_000),
    w(Box::new(c13::C13Thr), "c07/c13-connectables-concurrent-subscribers", 20_000),
    w(Box::new(timed::C15), "c07/c15-worker-threads-exit", 20_000),
    w(Box::new(timed::C16), "c07/c16-time", 20_000),
    w(Box::new(c18::C18), "c07/c18-to-vec", 40_000),
    w(Box::new(thr_ops::C19Ops), "c07/c19-racing-inputs", 40_000),
    w(Box::new(thr_ops::C19Subjects), "c07/c19-racing-subject-calls", 40_000),
    w(Box::new(c01::C01), "c07/c01-observer-contract", 100_000),
    w(Box::new(c03::C03), "c07/c03-combining-operators", 60_000),
    w(Box::new(c04::C04Handlers), "c07/c04-recovery-operators", 40_000),
    w(Box::new(c05::C05Seq), "c07/c05-unsubscribe-sequential", 100_000),
    w(Box::new(c06::C06), "c07/c06-teardown", 100_000),
    w(Box::new(c10::C10), "c07/c10-subject-histories", 60_000),
    w(Box::new(c13::C13), "c07/c13-connectables", 60_000),
    w(Box::new(c14::C14), "c07/c14-resubscribe", 40_000),
    w(Box::new(c17::C17), "c07/c17-release", 60_000),
  ]
}

fn all_families() -> Vec<Box<dyn Family>> {
  let mut v = all_families_base();
  v.extend(c07_families().into_iter().map(|x| x.0));
  v
}

fn all_families_base() -> Vec<Box<dyn Family>> {
  vec![Box::new(c08::C08), Box::new(c18::C18), Box::new(c09::C09), Box::new(c12::C12), Box::new(thr_ops::C19Ops), Box::new(thr_ops::C19Subjects), Box::new(thr_ops::C11), Box::new(timed::C16), Box::new(timed::C15), Box::new(c01::C01), Box::new(c05::C05Seq), Box::new(c05::C05Thr), Box::new(c06::C06), Box::new(c06::C06Thr), Box::new(c17::C17), Box::new(c14::C14), Box::new(c14::C14Shared), Box::new(c14::C14Thr), Box::new(timed::C14Timed), Box::new(c10::C10), Box::new(c10::C10Reenter), Box::new(c13::C13), Box::new(c13::C13Thr), Box::new(c13::C13ThrCold), Box::new(c13::C13Reg), Box::new(c03::C03), Box::new(c03::C03Rsg), Box::new(c04::C04Travel), Box::new(c04::C04Handlers), Box::new(c04::C04Inner { release: false }), Box::new(c04::C04Inner { release: true }),
    Box::new(Only { inner: Box::new(thr_ops::C11), name: "c03-amb-threads", pred: |w| w.s("op") == "amb" }),
    Box::new(Only { inner: Box::new(c12::C12), name: "c10-subjects-threads", pred: |_| true }),
    Box::new(Only { inner: Box::new(c10::C10Reenter), name: "c12-late-subscriber-pushes-from-its-callback", pred: |_| true }),
    Box::new(Only { inner: Box::new(thr_ops::C19Ops), name: "c04-error-races-completion", pred: |_| true }),
    Box::new(Only { inner: Box::new(c13::C13Reg), name: "c10-replay-subscriber-leaves-while-registering", pred: |w| w.s("kind") == "replay" }),
    Box::new(Only { inner: Box::new(thr_ops::C19Subjects), name: "c01-illformed-source-two-threads", pred: |_| true }),
    Box::new(Only { inner: Box::new(thr_ops::C19Ops), name: "c01-racing-terminals-behind-operators", pred: |_| true })]
}

fn spec_for(prop: &str) -> Option<CheckSpec> {
  let threaded_rule = "one case = (generated workload, seeded schedule and fault decisions); distinct = distinct (workload hash, schedule trace hash, recorded history hash) triples; non-trivial = the run had at least one context switch between tasks or at least one injected fault";
  let seq_rule = "one case = (generated pipeline AST, source scripts incl. injected faults, step/cancel order); distinct = distinct (workload hash, recorded history hash) pairs; non-trivial = at least one event was recorded";
  match prop {
    "C01" => Some(CheckSpec {
      property: "C01",
      level: "exploration",
      rule: seq_rule.to_string(),
      assumptions: vec![
        "runs that end blocked (self-deadlock, livelock, panic) are not judged here but by C07 (DESIGN.md 4.6)".into(),
        "single driver task: the sequential interleavings of several hot sources' scripts are the generated step order".into(),
      ],
      families: vec![
        FamilySpec { fam: Box::new(c01::C01), quick_runs: 400_000, thorough_runs: 6_000_000 },
        // a source that misbehaves from two threads at once (both terminals, a terminal and an item):
        // the C19 families, judged by the same contract
        FamilySpec { fam: Box::new(Only { inner: Box::new(thr_ops::C19Subjects), name: "c01-illformed-source-two-threads", pred: |_| true }), quick_runs: 40_000, thorough_runs: 600_000 },
        FamilySpec { fam: Box::new(Only { inner: Box::new(thr_ops::C19Ops), name: "c01-racing-terminals-behind-operators", pred: |_| true }), quick_runs: 30_000, thorough_runs: 600_000 },
      ],
      quick_cap_s: 60,
      thorough_cap_s: 900,
    }),
    "C03" => Some(CheckSpec {
      property: "C03",
      level: "exploration",
      rule: seq_rule.to_string(),
      assumptions: vec![
        "stage-wise refinement: the reference model of the judged combinator is evaluated on the histories recorded by probe stages on its input edges and must allow the history recorded on its output edge; the other operators are context and need no reference".into(),
        "may-sets where the statement is silent: zip/combine_latest may complete from the first input completion on and must once all completed; terminals of a take_until/skip_until/sample trigger have no effect (the statement gates by the trigger's items); switch_on_next is exercised but not judged".into(),
        "the context above the judged operator cannot end early (map/tap/materialize only)".into(),
      ],
      families: vec![
        FamilySpec { fam: Box::new(c03::C03), quick_runs: 400_000, thorough_runs: 6_000_000 },
        FamilySpec { fam: Box::new(c03::C03Rsg), quick_runs: 20_000, thorough_runs: 200_000 },
        // "amb mirrors only the first source to signal" also when the sources signal from different threads
        FamilySpec { fam: Box::new(Only { inner: Box::new(thr_ops::C11), name: "c03-amb-threads", pred: |w| w.s("op") == "amb" }), quick_runs: 30_000, thorough_runs: 600_000 },
      ],
      quick_cap_s: 60,
      thorough_cap_s: 900,
    }),
    "C04" => Some(CheckSpec {
      property: "C04",
      level: "fault_enumeration",
      rule: "travel family: one case = (pipeline, scripts, step order) with the error fault enumerated at EVERY position of the faulted source's script inside the case; handler family: one case = (handler, parameter, per-subscription scripts); distinct = distinct (workload hash, recorded history hash) pairs; non-trivial = at least one event recorded".to_string(),
      assumptions: vec![
        "travel: differential oracle - the run with the error at position k is compared with the fault-free run cut at k: same events before, then the very same payload (downcast to ErrTok), once, last".into(),
        "the faulted source sits where no operator discards its terminal by definition (not an amb input, not a trigger input, not behind switch_on_next)".into(),
        "retry(n): attempts are counted from 1 and a failed attempt is retried while attempt < n; 0 = unbounded (the crate's convention named in the property's anchors)".into(),
      ],
      families: vec![
        FamilySpec { fam: Box::new(c04::C04Travel), quick_runs: 120_000, thorough_runs: 2_000_000 },
        FamilySpec { fam: Box::new(c04::C04Handlers), quick_runs: 200_000, thorough_runs: 3_000_000 },
        // the subscribers of the inner observables of window_with_count / group_by get the error too
        FamilySpec { fam: Box::new(c04::C04Inner { release: false }), quick_runs: 20_000, thorough_runs: 200_000 },
        // "exactly once, as the terminal event" also when the error races a completion from another
        // thread (source vs trigger, two inputs of a combinator): the C19 family, same contract
        FamilySpec { fam: Box::new(Only { inner: Box::new(thr_ops::C19Ops), name: "c04-error-races-completion", pred: |_| true }), quick_runs: 30_000, thorough_runs: 600_000 },
      ],
      quick_cap_s: 60,
      thorough_cap_s: 900,
    }),
    "C05" => Some(CheckSpec {
      property: "C05",
      level: "exploration",
      rule: format!("sequential family: {}; threaded family: {}", seq_rule, threaded_rule),
      assumptions: vec![
        "conservative stamps: a delivery is flagged only if the source emission that caused it started after unsubscribe() had returned".into(),
        "is_subscribed() is sampled after subscribe, after every driver step and after unsubscribe; it is not asserted inside a terminal callback".into(),
        "premise: well-formed sources; blocked runs are left to C07".into(),
      ],
      families: vec![
        FamilySpec { fam: Box::new(c05::C05Seq), quick_runs: 300_000, thorough_runs: 5_000_000 },
        FamilySpec { fam: Box::new(c05::C05Thr), quick_runs: 100_000, thorough_runs: 2_000_000 },
      ],
      quick_cap_s: 60,
      thorough_cap_s: 900,
    }),
    "C06" => Some(CheckSpec {
      property: "C06",
      level: "fault_enumeration",
      rule: seq_rule.to_string(),
      assumptions: vec![
        "the instant an operator 'has all it needs' is observed by a pass-through probe stage at its output (written like the crate's own map)".into(),
        "the emission during which a subscription ended is not judged, the following attempts are".into(),
        "runs that end in a self-deadlock / panic are left to C07; a livelock with an unbounded producer in the pipeline is a C06 violation".into(),
      ],
      families: vec![FamilySpec { fam: Box::new(c06::C06), quick_runs: 400_000, thorough_runs: 6_000_000 },
        // inner streams registered with one controller from several threads at once, then the end
        FamilySpec { fam: Box::new(c06::C06Thr), quick_runs: 40_000, thorough_runs: 800_000 }],
      quick_cap_s: 60,
      thorough_cap_s: 900,
    }),
    "C07" => Some(CheckSpec {
      property: "C07",
      level: "exploration",
      rule: format!("{}; for single-task families: {}", threaded_rule, seq_rule),
      assumptions: vec![
        "the runtime is the oracle: a state with no runnable task and a blocked harness task is a deadlock, a request for a lock the task already holds incompatibly is a self-deadlock, an exhausted step budget under the bounded-bypass fairness rule is a livelock".into(),
        "both RwLock policies are sampled (writer-preferring = std on Linux: a recursive read behind a queued writer blocks)".into(),
        "premise of the property: user callbacks return and sources are finite or cancellable - pipelines with an unbounded retry or an unbounded producer are not judged for livelock here (C06 judges producers after the subscription ended)".into(),
      ],
      families: c07_families().into_iter().map(|(fam, q)| FamilySpec { fam, quick_runs: q, thorough_runs: q * 15 }).collect(),
      quick_cap_s: 150,
      thorough_cap_s: 1800,
    }),
    "C08" => Some(CheckSpec {
      property: "C08",
      level: "exploration",
      rule: threaded_rule.to_string(),
      assumptions: vec![
        "lock-operation granularity: code between two facade calls is atomic (the crate has no atomics / unsafe)".into(),
        "posted closures return (premise of the property)".into(),
      ],
      families: vec![FamilySpec { fam: Box::new(c08::C08), quick_runs: 250_000, thorough_runs: 6_000_000 }],
      quick_cap_s: 60,
      thorough_cap_s: 900,
    }),
    "C09" => Some(CheckSpec {
      property: "C09",
      level: "exploration",
      rule: threaded_rule.to_string(),
      assumptions: vec![
        "well-formed finite source scripts with unique items (each delivery is attributable to one emission)".into(),
        "lock-operation granularity".into(),
      ],
      families: vec![FamilySpec { fam: Box::new(c09::C09), quick_runs: 120_000, thorough_runs: 2_500_000 }],
      quick_cap_s: 60,
      thorough_cap_s: 900,
    }),
    "C12" => Some(CheckSpec {
      property: "C12",
      level: "exploration",
      rule: threaded_rule.to_string(),
      assumptions: vec![
        "every pushed item is unique, so each delivery is attributable to one push".into(),
        "stamps are conservative: an item is required only if its push started after subscribe returned, forbidden only if its push started after unsubscribe returned".into(),
        "lock-operation granularity".into(),
      ],
      families: vec![FamilySpec { fam: Box::new(c12::C12), quick_runs: 150_000, thorough_runs: 3_000_000 },
        // "in push order, each once" also for the items the late subscriber's own callback pushes
        FamilySpec { fam: Box::new(Only { inner: Box::new(c10::C10Reenter), name: "c12-late-subscriber-pushes-from-its-callback", pred: |_| true }), quick_runs: 30_000, thorough_runs: 300_000 },
      ],
      quick_cap_s: 60,
      thorough_cap_s: 900,
    }),
    "C10" => Some(CheckSpec {
      property: "C10",
      level: "exploration",
      rule: "one case = (subject type, observer attachments, call history incl. misuse); distinct = distinct (workload hash, recorded history hash) pairs; non-trivial = at least one call was made".to_string(),
      assumptions: vec![
        "reference state machine = literal reading of the statement; each observer subscribes at most once".into(),
        "where the statement is silent only weak invariants are asserted: producer calls after the terminal of a Behavior/Replay/Async subject, and AsyncSubject observers that subscribe after a terminal".into(),
        "HashMap iteration order is perturbed per run (hash-order fault)".into(),
      ],
      families: vec![
        FamilySpec { fam: Box::new(c10::C10), quick_runs: 400_000, thorough_runs: 6_000_000 },
        // one late subscriber whose own callback pushes into the subject (also during the hand-over)
        FamilySpec { fam: Box::new(c10::C10Reenter), quick_runs: 30_000, thorough_runs: 300_000 },
        // "a ReplaySubject first hands a new subscriber every past item in order followed by the stored
        // terminal" also while another thread pushes / completes during the hand-over
        FamilySpec { fam: Box::new(Only { inner: Box::new(c12::C12), name: "c10-subjects-threads", pred: |_| true }), quick_runs: 40_000, thorough_runs: 800_000 },
        // "holds no observer after that observer unsubscribed" when the observer leaves while the
        // ReplaySubject (inside replay()) is still registering it
        FamilySpec { fam: Box::new(Only { inner: Box::new(c13::C13Reg), name: "c10-replay-subscriber-leaves-while-registering", pred: |w| w.s("kind") == "replay" }), quick_runs: 6_000, thorough_runs: 30_000 },
      ],
      quick_cap_s: 60,
      thorough_cap_s: 900,
    }),
    "C11" => Some(CheckSpec {
      property: "C11",
      level: "exploration",
      rule: threaded_rule.to_string(),
      assumptions: vec![
        "premise of the property: no input fails; every input completes; items are unique".into(),
        "zip is only judged on inputs of equal length (the statement does not say when zip completes otherwise)".into(),
        "lock-operation granularity".into(),
      ],
      families: vec![FamilySpec { fam: Box::new(thr_ops::C11), quick_runs: 120_000, thorough_runs: 2_500_000 }],
      quick_cap_s: 60,
      thorough_cap_s: 900,
    }),
    "C19" => Some(CheckSpec {
      property: "C19",
      level: "exploration",
      rule: threaded_rule.to_string(),
      assumptions: vec![
        "conservative stamps: a delivery is flagged only if its originating emission started after the terminal callback had returned; in-flight events are never flagged".into(),
        "lock-operation granularity".into(),
      ],
      families: vec![
        FamilySpec { fam: Box::new(thr_ops::C19Ops), quick_runs: 90_000, thorough_runs: 2_000_000 },
        FamilySpec { fam: Box::new(thr_ops::C19Subjects), quick_runs: 90_000, thorough_runs: 2_000_000 },
      ],
      quick_cap_s: 60,
      thorough_cap_s: 900,
    }),
    "C13" => Some(CheckSpec {
      property: "C13",
      level: "exploration",
      rule: "one case = (publish|ref_count|replay, hot or cold source script, subscriber attachments, call history); distinct = distinct (workload hash, recorded history hash) pairs; non-trivial = at least one call was made".to_string(),
      assumptions: vec![
        "reference state machine = literal reading of the statement; not asserted (statement silent): whether ref_count/replay reconnect after the count dropped to zero, and a second connect() of publish".into(),
        "source liveness is probed through Observer::is_subscribed() on the observers handed to the instrumented source after every call".into(),
      ],
      families: vec![
        FamilySpec { fam: Box::new(c13::C13), quick_runs: 400_000, thorough_runs: 6_000_000 },
        FamilySpec { fam: Box::new(c13::C13Thr), quick_runs: 80_000, thorough_runs: 1_500_000 },
        // replay() over a cold source emitting inside the connect while further subscribers arrive from other threads
        FamilySpec { fam: Box::new(c13::C13ThrCold), quick_runs: 20_000, thorough_runs: 400_000 },
        // the first subscriber ends (take_until fired by the source itself) while it is still being registered
        FamilySpec { fam: Box::new(c13::C13Reg), quick_runs: 8_000, thorough_runs: 40_000 },
      ],
      quick_cap_s: 60,
      thorough_cap_s: 900,
    }),
    "C14" => Some(CheckSpec {
      property: "C14",
      level: "exploration",
      rule: seq_rule.to_string(),
      assumptions: vec![
        "self-differential oracle: the reference for subscriber k is the same AST built afresh and subscribed once, driven by exactly the steps that concerned k in the shared run; no operator semantics are assumed".into(),
        "each hot source observer belongs to the subscription during whose driver action it was created".into(),
      ],
      families: vec![
        FamilySpec { fam: Box::new(c14::C14), quick_runs: 200_000, thorough_runs: 3_000_000 },
        // a second subscription started mid-stream of a cold synchronous source, also behind ref_count / replay
        FamilySpec { fam: Box::new(c14::C14Shared), quick_runs: 12_000, thorough_runs: 60_000 },
        // the same Observable value subscribed by several threads at once
        FamilySpec { fam: Box::new(c14::C14Thr), quick_runs: 30_000, thorough_runs: 600_000 },
        // the time-based operators (their schedulers, timers and cells are per subscription too)
        FamilySpec { fam: Box::new(timed::C14Timed), quick_runs: 20_000, thorough_runs: 400_000 },
      ],
      quick_cap_s: 60,
      thorough_cap_s: 900,
    }),
    "C15" => Some(CheckSpec {
      property: "C15",
      level: "exploration",
      rule: threaded_rule.to_string(),
      assumptions: vec![
        "worker = a thread the crate itself spawns (through the facade); the end instant is stamped inside the terminal callback / right after unsubscribe returned".into(),
        "'at most one timer period': after the end instant a worker may finish the sleep it is in and begin at most one more".into(),
      ],
      families: vec![FamilySpec { fam: Box::new(timed::C15), quick_runs: 60_000, thorough_runs: 1_200_000 }],
      quick_cap_s: 60,
      thorough_cap_s: 900,
    }),
    "C16" => Some(CheckSpec {
      property: "C16",
      level: "exploration",
      rule: threaded_rule.to_string(),
      assumptions: vec![
        "virtual clock: computation takes no time, time advances only when no task is runnable".into(),
        "exact configuration: periods and gaps from a grid on which no two oracle-relevant instants coincide (workloads with ties are rejected); jitter configuration: sleeps return up to 30 ms late and the oracle is relaxed to lower bounds and order".into(),
      ],
      families: vec![FamilySpec { fam: Box::new(timed::C16), quick_runs: 80_000, thorough_runs: 1_600_000 }],
      quick_cap_s: 60,
      thorough_cap_s: 900,
    }),
    "C17" => Some(CheckSpec {
      property: "C17",
      level: "fault_enumeration",
      rule: seq_rule.to_string(),
      assumptions: vec![
        "one counting token is cloned into the three subscribe callbacks, every closure passed to an operator and every item emitted by a scripted source; live owners = Arc::strong_count - 1 after the run".into(),
        "the harness keeps only token-free copies of what it records".into(),
        "only subscriptions that have ended (terminal delivered or unsubscribe called) are judged".into(),
      ],
      families: vec![
        FamilySpec { fam: Box::new(c17::C17), quick_runs: 300_000, thorough_runs: 5_000_000 },
        // the subscribers of the inner observables of window_with_count / group_by (not flattened)
        FamilySpec { fam: Box::new(c04::C04Inner { release: true }), quick_runs: 20_000, thorough_runs: 200_000 },
      ],
      quick_cap_s: 60,
      thorough_cap_s: 900,
    }),
    "C18" => Some(CheckSpec {
      property: "C18",
      level: "exploration",
      rule: threaded_rule.to_string(),
      assumptions: vec![
        "the executor is a minimal block_on built on the facade Mutex/Condvar whose waker sets a flag and notifies; real executors differ only in when they poll, which spurious wake-ups and eager re-polls cover".into(),
        "lock-operation granularity".into(),
      ],
      families: vec![FamilySpec { fam: Box::new(c18::C18), quick_runs: 200_000, thorough_runs: 4_000_000 }],
      quick_cap_s: 60,
      thorough_cap_s: 900,
    }),
    _ => None,
  }
}

fn determinism(fam_name: &str, n: u64) -> i32 {
  // prints one line per run: seed, trace hash, steps, outcome - to be diffed across processes
  let fams = all_families();
  let fam = match fams.iter().find(|f| f.name() == fam_name) {
    Some(f) => f,
    None => {
      eprintln!("unknown family {}", fam_name);
      return 2;
    }
  };
  let base = env_u64("VERIF_SEED", 1);
  let jobs = env_u64("VERIF_JOBS", 16) as usize;
  let lines = std::sync::Arc::new(std::sync::Mutex::new(Vec::new()));
  let next = std::sync::Arc::new(std::sync::atomic::AtomicU64::new(0));
  std::thread::scope(|s| {
    for _ in 0..jobs {
      s.spawn(|| loop {
        let i = next.fetch_add(1, std::sync::atomic::Ordering::Relaxed);
        if i >= n {
          break;
        }
        let seed = (base * 1_000_003 + i) & ((1 << 53) - 1);
        let mut wr = rxsim_rt::prng::Rng::stream(seed, "workload");
        let w = fam.gen(&mut wr, Tier::Quick);
        let mut kr = rxsim_rt::prng::Rng::stream(seed, "knobs");
        let knobs = fam.knobs(&mut kr, &w, Tier::Quick);
        let out = fam.exec(&w, cfg_from_knobs(seed, &knobs));
        lines.lock().unwrap().push((
          i,
          format!(
            "{} {} {:016x} {:016x} steps={} sw={} dec={} t={} {} viol={}",
            i,
            seed,
            out.res.trace_hash,
            out.fingerprint,
            out.res.steps,
            out.res.switches,
            out.res.decisions.len(),
            out.res.sim_time_ns,
            out.res.outcome.class(),
            out.violations.len()
          ),
        ));
      });
    }
  });
  let mut l = lines.lock().unwrap().clone();
  l.sort();
  for (_, s) in l {
    println!("{}", s);
  }
  0
}

fn main() {
  let args: Vec<String> = std::env::args().skip(1).collect();
  if args.is_empty() {
    eprintln!("usage: rxsim <Cxx> [--tier quick|thorough] | replay <file> | determinism <family> <n> | families");
    std::process::exit(2);
  }
  let code = match args[0].as_str() {
    "replay" => {
      if args.len() < 2 {
        eprintln!("usage: rxsim replay <file>");
        2
      } else {
        replay_file(&args[1], all_families())
      }
    }
    "determinism" => determinism(&args[1], args.get(2).and_then(|s| s.parse().ok()).unwrap_or(200)),
    "blocked" => {
      // diagnostic: list runs of a family that did not end normally
      let fams = all_families();
      let fam = fams.iter().find(|f| f.name() == args[1]).expect("family");
      let n: u64 = args.get(2).and_then(|s| s.parse().ok()).unwrap_or(20000);
      let want = args.get(3).cloned().unwrap_or_default();
      let mut seen = std::collections::BTreeMap::new();
      for i in 0..n {
        let seed = (env_u64("VERIF_SEED", 1) * 1_000_003 + i) & ((1 << 53) - 1);
        let mut wr = rxsim_rt::prng::Rng::stream(seed, "workload");
        let w = fam.gen(&mut wr, Tier::Quick);
        let mut kr = rxsim_rt::prng::Rng::stream(seed, "knobs");
        let knobs = fam.knobs(&mut kr, &w, Tier::Quick);
        let out = fam.exec(&w, cfg_from_knobs(seed, &knobs));
        if !out.res.outcome.is_ok() && out.res.outcome.class().contains(&want) {
          let d = out.res.outcome.describe();
          let key: String = d.chars().take(160).collect();
          let e = seen.entry(key).or_insert((0u64, String::new(), String::new()));
          e.0 += 1;
          if e.1.is_empty() || w.to_string().len() < e.1.len() {
            e.1 = w.to_string();
            e.2 = d;
          }
        }
      }
      for (_, (c, w, d)) in seen {
        println!("{}x {}\n   {}\n", c, d.chars().take(700).collect::<String>(), w);
      }
      0
    }
    "exec" => {
      // diagnostic: run one workload given as JSON text
      let fams = all_families();
      let fam = fams.iter().find(|f| f.name() == args[1]).expect("family");
      let w = json::Json::parse(&args[2]).expect("workload json");
      let knobs = default_knobs(&mut rxsim_rt::prng::Rng::new(1), fam.threaded());
      let out = fam.exec(&w, cfg_from_knobs(env_u64("VERIF_SEED", 1), &knobs));
      println!("invalid={} outcome={}", out.invalid, out.res.outcome.describe());
      for h in &out.history {
        println!("  {}", h);
      }
      for v in &out.violations {
        println!("violation class={} blame={} {}", v.class, v.blame, v.detail);
      }
      0
    }
    "families" => {
      for f in all_families() {
        println!("{}", f.name());
      }
      0
    }
    prop => {
      let mut tier = match std::env::var("VERIF_TIER").as_deref() {
        Ok("thorough") => Tier::Thorough,
        _ => Tier::Quick,
      };
      let mut i = 1;
      while i < args.len() {
        if args[i] == "--tier" && i + 1 < args.len() {
          tier = if args[i + 1] == "thorough" { Tier::Thorough } else { Tier::Quick };
          i += 1;
        }
        i += 1;
      }
      match spec_for(prop) {
        Some(spec) => run_check(spec, tier),
        None => {
          eprintln!("HARNESS-ERROR: no check for property {}", prop);
          2
        }
      }
    }
  };
  std::process::exit(code);
}

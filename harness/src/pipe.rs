//! Pipeline AST (kept as JSON so that it can be generated, shrunk, stored in replay files and
//! shown in evidence) and its builder into a real `Observable<'static, Val>` (DESIGN.md 4.2).
//!
//! node := {"src": i}
//!       | {"new": "just"|"from_iter"|"range"|"empty"|"never"|"error"|"repeat"|"start"|"defer", "a": int | [ints], "in": node?}
//!       | {"op": name, "a": int?, "in": node}
//!       | {"multi": "merge"|"zip"|"concat"|"amb"|"combine_latest"|"sequence_equal", "ins": [node..]}
//!       | {"trig": "take_until"|"skip_until"|"sample"|"switch_on_next", "in": node, "by": node}

use crate::json::Json;
use crate::rec::*;
use crate::val::*;
use another_rxrust::internals::stream_controller::StreamController;
use another_rxrust::prelude::*;
use rxsim_rt as rt;
use rxsim_rt::prng::Rng;
use std::sync::{Arc, Mutex};

/// unary operators with one int parameter at most
pub const UNARY: &[&str] = &[
  "map", "filter", "take", "skip", "take_last", "skip_last", "take_while", "skip_while", "first", "last", "element_at",
  "distinct_until_changed", "scan", "reduce", "count", "sum", "sum_and_count", "min", "max", "all", "contains",
  "default_if_empty", "ignore_elements", "start_with", "buffer_with_count", "window_with_count", "group_by",
  "materialize", "dematerialize", "mat_demat", "tap", "map_to_any", "flat_map", "on_error_resume_next", "retry",
  "retry_when", "time_interval", "timestamp", "ref_count", "replay",
];
pub const MULTI: &[&str] = &["merge", "zip", "concat", "amb", "combine_latest", "sequence_equal"];
pub const TRIG: &[&str] = &["take_until", "skip_until", "sample", "switch_on_next"];
/// operators that create threads (only used where the family wants them)
pub const THREAD_OPS: &[&str] = &["observe_on", "subscribe_on"];

#[derive(Clone, Debug)]
pub struct ProbeEv {
  pub seq: u64,
  pub sub: usize,
  pub ev: Ev,
}

#[derive(Default, Debug)]
pub struct ProbeLog {
  /// seq at which the edge was subscribed (k-th entry = k-th subscription of the edge)
  pub subscribed: Vec<u64>,
  pub events: Vec<ProbeEv>,
}

#[derive(Default)]
pub struct TapCounts {
  pub next: u64,
  pub error: u64,
  pub complete: u64,
}

pub struct Ctx {
  /// observables for {"src": i}
  pub srcs: Vec<Observable<'static, Val>>,
  /// captured by every closure handed to an operator (C17)
  pub token: Option<Token>,
  /// recorders attached by flattening operators are not needed: inner observables are merged
  pub probes: Arc<Mutex<Vec<Arc<Mutex<ProbeLog>>>>>,
  pub taps: Arc<Mutex<TapCounts>>,
  /// inner observables of flat_map / on_error_resume_next that refer to sources by index
  pub allow_threads: bool,
  /// when set, every inner observable a flat_map creates is wrapped in a probe stage whose log
  /// is appended here (in creation order)
  pub inner_probes: Option<Arc<Mutex<Vec<Arc<Mutex<ProbeLog>>>>>>,
  /// how often the functions handed to `start` / `defer` were called
  pub factory_calls: Arc<Mutex<u64>>,
  /// called from inside every closure handed to an operator (predicates, accumulators, key and
  /// factory functions, tap callbacks) and from a pass-through stage that sees the inner
  /// observables of group_by / window_with_count while they are being handed over (C07: operator
  /// closures that re-enter the library)
  pub closure_hook: ClosureHook,
}

#[derive(Clone, Default)]
pub struct ClosureHook(pub Option<Arc<dyn Fn(&'static str) + Send + Sync>>);
impl ClosureHook {
  #[inline]
  pub fn call(&self, site: &'static str) {
    if let Some(f) = &self.0 {
      f(site)
    }
  }
}

impl Ctx {
  pub fn new(srcs: Vec<Observable<'static, Val>>) -> Ctx {
    Ctx { srcs, token: None, probes: Arc::new(Mutex::new(Vec::new())), taps: Arc::new(Mutex::new(TapCounts::default())), allow_threads: false, inner_probes: None, factory_calls: Arc::new(Mutex::new(0)), closure_hook: ClosureHook::default() }
  }
}

fn pred(k: i64) -> impl Fn(i64) -> bool + Clone + Send + Sync + 'static {
  // family: <k', even, != k'
  move |x| match k.rem_euclid(3) {
    0 => x % 10 < (k / 3).rem_euclid(10),
    1 => x % 2 == 0,
    _ => x % 10 != (k / 3).rem_euclid(10),
  }
}

fn val_to_material(v: Val) -> Material<Val> {
  match v {
    Val::Mat(0, x) => Material::Next(*x),
    Val::Mat(1, x) => Material::Error(mk_err(x.int())),
    Val::Mat(_, _) => Material::Complete,
    x => Material::Next(x),
  }
}

fn material_to_val(m: Material<Val>) -> Val {
  match m {
    Material::Next(x) => Val::Mat(0, Box::new(x)),
    Material::Error(e) => Val::Mat(1, Box::new(Val::Int(err_id(&e)))),
    Material::Complete => Val::Mat(2, Box::new(Val::Unit)),
  }
}

/// pass-through stage written like the crate's own `map`, recording what crosses the edge
pub fn probe_stage(o: Observable<'static, Val>, log: Arc<Mutex<ProbeLog>>) -> Observable<'static, Val> {
  Observable::create(move |s| {
    let sub = {
      let mut l = log.lock().unwrap();
      l.subscribed.push(rt::seq());
      l.subscribed.len() - 1
    };
    let sctl = StreamController::new(s);
    let (s1, s2, s3) = (sctl.clone(), sctl.clone(), sctl.clone());
    let (l1, l2, l3) = (log.clone(), log.clone(), log.clone());
    o.verif_inner_subscribe(sctl.new_observer(
      move |_, x: Val| {
        l1.lock().unwrap().events.push(ProbeEv { seq: rt::seq(), sub, ev: Ev::Next(x.strip()) });
        s1.sink_next(x);
      },
      move |_, e| {
        l2.lock().unwrap().events.push(ProbeEv { seq: rt::seq(), sub, ev: Ev::Error(err_id(&e)) });
        s2.sink_error(e);
      },
      move |serial| {
        l3.lock().unwrap().events.push(ProbeEv { seq: rt::seq(), sub, ev: Ev::Complete });
        s3.sink_complete(&serial);
      },
    ));
  })
}

fn ints(j: Option<&Json>) -> Vec<i64> {
  match j {
    Some(Json::Arr(a)) => a.iter().filter_map(|x| x.as_i64()).collect(),
    Some(Json::Int(i)) => vec![*i],
    _ => vec![],
  }
}

/// inner observable family for flat_map / on_error_resume_next: a mod 7
fn inner_obs(ctx_srcs: &[Observable<'static, Val>], a: i64, x: i64) -> Observable<'static, Val> {
  match a.rem_euclid(7) {
    0 => observables::just(Val::Int(x * 10)),
    1 => observables::from_iter(vec![Val::Int(x * 10), Val::Int(x * 10 + 1)].into_iter()),
    2 => observables::empty(),
    3 => observables::error(mk_err(900 + x.rem_euclid(10))),
    4 => observables::never(),
    5 => {
      if ctx_srcs.is_empty() {
        observables::just(Val::Int(x * 10))
      } else {
        ctx_srcs[(a / 7).rem_euclid(ctx_srcs.len() as i64) as usize].clone()
      }
    }
    _ => {
      // a different (hot) source per item: sources 1.. chosen by the item
      if ctx_srcs.len() < 2 {
        observables::just(Val::Int(x * 10))
      } else {
        ctx_srcs[1 + x.rem_euclid(ctx_srcs.len() as i64 - 1) as usize].clone()
      }
    }
  }
}

pub fn build(j: &Json, ctx: &Ctx) -> Option<Observable<'static, Val>> {
  let tok = ctx.token.clone();
  let hk = ctx.closure_hook.clone();
  if let Some(i) = j.get("src") {
    return ctx.srcs.get(i.as_i64()? as usize).cloned();
  }
  if let Some(n) = j.get("new") {
    let a = ints(j.get("a"));
    let a0 = a.first().copied().unwrap_or(0);
    return Some(match n.as_str()? {
      "just" => observables::just(Val::Int(a0)),
      "from_iter" => {
        if a.len() > 8 {
          return None;
        }
        observables::from_iter(a.into_iter().map(Val::Int).collect::<Vec<_>>().into_iter())
      }
      "range" => {
        let cnt = a.get(1).copied().unwrap_or(0);
        if !(0..=8).contains(&cnt) {
          return None;
        }
        observables::range(a0, cnt).map(Val::Int)
      }
      "empty" => observables::empty(),
      "never" => observables::never(),
      "error" => observables::error(mk_err(a0)),
      "repeat" => observables::repeat(Val::Int(a0)),
      "endless_iter" => observables::from_iter((0i64..).map(Val::Int)),
      "start" => {
        let fc = ctx.factory_calls.clone();
        observables::start(move || {
          let _t = &tok;
        hk.call("closure");
          *fc.lock().unwrap() += 1;
          rt::probe("start-function");
          Val::Int(a0)
        })
      }
      "defer" => {
        let inner = build(j.get("in")?, ctx)?;
        let fc = ctx.factory_calls.clone();
        observables::defer(move || {
          let _t = &tok;
        hk.call("closure");
          *fc.lock().unwrap() += 1;
          inner.clone()
        })
      }
      _ => return None,
    });
  }
  if let Some(m) = j.get("multi") {
    let ins: Option<Vec<Observable<'static, Val>>> = j.a("ins").iter().map(|x| build(x, ctx)).collect();
    let ins = ins?;
    if ins.is_empty() || ins.len() > 4 {
      return None;
    }
    return Some(match m.as_str()? {
      "merge" => ins[0].merge(&ins[1..]),
      "concat" => ins[0].concat(&ins[1..]),
      "amb" => ins[0].amb(&ins[1..]),
      "zip" => ins[0].zip(&ins[1..]).map(Val::List),
      "combine_latest" => ins[0].combine_latest(&ins[1..], move |v: Vec<Val>| {
        let _t = &tok;
        hk.call("closure");
        Val::List(v)
      }),
      "sequence_equal" => ins[0].sequence_equal(&ins[1..]).map(Val::Bool),
      _ => return None,
    });
  }
  if let Some(t) = j.get("trig") {
    let src = build(j.get("in")?, ctx)?;
    let by = build(j.get("by")?, ctx)?;
    return Some(match t.as_str()? {
      "take_until" => src.take_until(by),
      "skip_until" => src.skip_until(by),
      "sample" => src.sample(by),
      "switch_on_next" => src.switch_on_next(by),
      _ => return None,
    });
  }
  let op = j.get("op")?.as_str()?;
  let a = j.i("a");
  if !(-1000..=1000).contains(&a) {
    return None;
  }
  let o = build(j.get("in")?, ctx)?;
  let n = a.clamp(0, 8) as usize;
  Some(match op {
    "map" => o.map(move |x: Val| {
      let _t = &tok;
        hk.call("closure");
      Val::Int(x.int().wrapping_add(a))
    }),
    "map_id" => o.map(move |x: Val| {
      let _t = &tok;
        hk.call("closure");
      x
    }),
    "filter" => {
      let p = pred(a);
      o.filter(move |x: Val| {
        let _t = &tok;
        hk.call("closure");
        p(x.int())
      })
    }
    "take" => o.take(n),
    "skip" => o.skip(n),
    "take_last" => o.take_last(n),
    "skip_last" => o.skip_last(n),
    "take_while" => {
      let p = pred(a);
      o.take_while(move |x: Val| {
        let _t = &tok;
        hk.call("closure");
        p(x.int())
      })
    }
    "skip_while" => {
      let p = pred(a);
      o.skip_while(move |x: Val| {
        let _t = &tok;
        hk.call("closure");
        p(x.int())
      })
    }
    "first" => o.first(),
    "last" => o.last(),
    "element_at" => o.element_at(n.max(1)),
    "distinct_until_changed" => o.distinct_until_changed(),
    "scan" => o.scan(move |(acc, x): (Val, Val)| {
      let _t = &tok;
        hk.call("closure");
      Val::Int(acc.int().wrapping_add(x.int()))
    }),
    "reduce" => o.reduce(move |(acc, x): (Val, Val)| {
      let _t = &tok;
        hk.call("closure");
      Val::Int(acc.int().wrapping_mul(3).wrapping_add(x.int()))
    }),
    "count" => o.count().map(|c| Val::Int(c as i64)),
    "sum" => o.sum(),
    "sum_and_count" => o.sum_and_count().map(|(s, c)| Val::List(vec![s, Val::Int(c as i64)])),
    "min" => o.min(),
    "max" => o.max(),
    "all" => {
      let p = pred(a);
      o.all(move |x: Val| {
        let _t = &tok;
        hk.call("closure");
        p(x.int())
      })
      .map(Val::Bool)
    }
    "contains" => o.contains(Val::Int(a)).map(Val::Bool),
    "default_if_empty" => o.default_if_empty(Val::Int(a)),
    "ignore_elements" => o.ignore_elements(),
    "start_with" => o.start_with(vec![Val::Int(a), Val::Int(a + 1)].into_iter()),
    // an endless prefix: only usable under an operator that ends the stream (C06)
    "start_with_endless" => o.start_with((0i64..).map(Val::Int)),
    "buffer_with_count" => o.buffer_with_count(n.max(1)).map(Val::List),
    "window_with_count" => o
      .window_with_count(n.max(1))
      .map(move |w: Observable<'static, Val>| {
        hk.call("hand-over");
        w
      })
      .flat_map(|w: Observable<'static, Val>| w),
    "group_by" => {
      let k = (n as i64).max(1);
      let hk_h = hk.clone();
      o.group_by(move |x: Val| {
        let _t = &tok;
        hk.call("closure");
        x.int().rem_euclid(k)
      })
      .map(move |g: Observable<'static, Val>| {
        hk_h.call("hand-over");
        g
      })
      .flat_map(|g: Observable<'static, Val>| g)
    }
    "materialize" => o.materialize().map(material_to_val),
    // a >= 20: items with the same last digit as `a` become Material::Error, a >= 10: Material::Complete
    "dematerialize" => o
      .map(move |v: Val| match &v {
        Val::Int(i) if a >= 20 && i.rem_euclid(10) == a.rem_euclid(10) => Material::Error(mk_err(77)),
        Val::Int(i) if (10..20).contains(&a) && i.rem_euclid(10) == a.rem_euclid(10) => Material::Complete,
        _ => val_to_material(v),
      })
      .dematerialize(),
    "mat_demat" => o.materialize().dematerialize(),
    "tap" => {
      let (c1, c2, c3) = (ctx.taps.clone(), ctx.taps.clone(), ctx.taps.clone());
      let (t1, t2, t3) = (tok.clone(), tok.clone(), tok);
      let (hk1, hk2, hk3) = (hk.clone(), hk.clone(), hk);
      o.tap(
        move |_x: Val| {
          let _t = &t1;
          hk1.call("tap");
          c1.lock().unwrap().next += 1;
        },
        move |_e| {
          let _t = &t2;
          hk2.call("tap");
          c2.lock().unwrap().error += 1;
        },
        move || {
          let _t = &t3;
          hk3.call("tap");
          c3.lock().unwrap().complete += 1;
        },
      )
    }
    "map_to_any" => o.map_to_any().map(|x| x.downcast_ref::<Val>().cloned().unwrap_or(Val::Unit)),
    "flat_map" => {
      let srcs = ctx.srcs.clone();
      let ip = ctx.inner_probes.clone();
      o.flat_map(move |x: Val| {
        let _t = &tok;
        hk.call("closure");
        let inner = inner_obs(&srcs, a, x.int());
        match &ip {
          Some(ip) => {
            let log = Arc::new(Mutex::new(ProbeLog::default()));
            ip.lock().unwrap().push(log.clone());
            probe_stage(inner, log)
          }
          None => inner,
        }
      })
    }
    "on_error_resume_next" => {
      let srcs = ctx.srcs.clone();
      o.on_error_resume_next(move |e: RxError| {
        let _t = &tok;
        hk.call("closure");
        inner_obs(&srcs, a, err_id(&e))
      })
    }
    "retry" => o.retry(a.clamp(0, 4) as usize),
    "retry_when" => o.retry_when(move |e: RxError| {
      let _t = &tok;
        hk.call("closure");
      match a.rem_euclid(4) {
        0 => true,
        1 => false,
        2 => err_id(&e) % 2 == 0,
        _ => err_id(&e) < 5,
      }
    }),
    // delays on the calling thread for `a` virtual milliseconds
    "delay" => o.delay(std::time::Duration::from_millis(a.clamp(0, 50) as u64)),
    "ref_count" => o.ref_count().observable(),
    "replay" => o.replay().observable(),
    "time_interval" => o.time_interval().map(|d| Val::Int(d.as_millis() as i64)),
    "timestamp" => o.timestamp().map(|(_, v)| v),
    "observe_on" if ctx.allow_threads => o.observe_on(schedulers::new_thread_scheduler()),
    "subscribe_on" if ctx.allow_threads => o.subscribe_on(schedulers::new_thread_scheduler()),
    "probe" => {
      let log = Arc::new(Mutex::new(ProbeLog::default()));
      let mut ps = ctx.probes.lock().unwrap();
      let idx = a as usize;
      while ps.len() <= idx {
        ps.push(Arc::new(Mutex::new(ProbeLog::default())));
      }
      ps[idx] = log.clone();
      drop(ps);
      probe_stage(o, log)
    }
    _ => return None,
  })
}

// ------------------------------------------------------------------------------------------------
// generation

pub struct GenCfg<'a> {
  pub nsrc: usize,
  pub unary: &'a [&'a str],
  pub multi: &'a [&'a str],
  pub trig: &'a [&'a str],
  /// creation functions usable as leaves besides {"src": i}
  pub news: &'a [&'a str],
  pub max_depth: u32,
}

fn gen_new(rng: &mut Rng, news: &[&str]) -> Json {
  let n = *rng.pick(news);
  let a = match n {
    "from_iter" => Json::Arr((0..rng.below(4)).map(|i| Json::Int(40 + i as i64)).collect()),
    "range" => Json::Arr(vec![Json::Int(rng.below(5) as i64), Json::Int(rng.below(4) as i64)]),
    _ => Json::Int(rng.below(8) as i64 + 50),
  };
  Json::obj(vec![("new", Json::str(n)), ("a", a)])
}

pub fn gen_node(rng: &mut Rng, g: &GenCfg, depth: u32, next_src: &mut usize) -> Json {
  // leaves
  let leaf = |rng: &mut Rng, next_src: &mut usize| -> Json {
    if g.nsrc > 0 && (g.news.is_empty() || rng.below(4) != 0) {
      // use every source at least once, left to right, then random ones
      let i = if *next_src < g.nsrc {
        *next_src += 1;
        *next_src - 1
      } else {
        rng.below(g.nsrc as u64) as usize
      };
      Json::obj(vec![("src", Json::Int(i as i64))])
    } else {
      gen_new(rng, g.news)
    }
  };
  if depth == 0 {
    return leaf(rng, next_src);
  }
  let r = rng.below(100);
  if r < 12 && !g.multi.is_empty() {
    let k = rng.range(2, 3);
    let ins: Vec<Json> = (0..k).map(|_| gen_node(rng, g, depth - 1, next_src)).collect();
    Json::obj(vec![("multi", Json::str(*rng.pick(g.multi))), ("ins", Json::Arr(ins))])
  } else if r < 20 && !g.trig.is_empty() {
    let a = gen_node(rng, g, depth - 1, next_src);
    let b = gen_node(rng, g, depth.saturating_sub(2), next_src);
    Json::obj(vec![("trig", Json::str(*rng.pick(g.trig))), ("in", a), ("by", b)])
  } else if r < 90 && !g.unary.is_empty() {
    let op = *rng.pick(g.unary);
    let a = match op {
      "take" | "skip" | "take_last" | "skip_last" | "element_at" | "buffer_with_count" | "window_with_count" | "group_by" => rng.below(4) as i64,
      "retry" => rng.below(4) as i64,
      _ => rng.below(30) as i64,
    };
    let inner = gen_node(rng, g, depth - 1, next_src);
    Json::obj(vec![("op", Json::str(op)), ("a", Json::Int(a)), ("in", inner)])
  } else {
    leaf(rng, next_src)
  }
}

/// shrink candidates: replace a node by one of its children
pub fn node_shrinks(j: &Json) -> Vec<Json> {
  let mut out = Vec::new();
  fn children(n: &Json) -> Vec<Json> {
    let mut c = Vec::new();
    if let Some(x) = n.get("in") {
      c.push(x.clone());
    }
    if let Some(x) = n.get("by") {
      c.push(x.clone());
    }
    for x in n.a("ins") {
      c.push(x);
    }
    c
  }
  fn rec(n: &Json, rebuild: &dyn Fn(Json) -> Json, out: &mut Vec<Json>) {
    for c in children(n) {
      out.push(rebuild(c));
    }
    if let Some(x) = n.get("in") {
      let n2 = n.clone();
      rec(
        x,
        &|c| {
          let mut m = n2.clone();
          if let Json::Obj(o) = &mut m {
            o.insert("in".into(), c);
          }
          rebuild(m)
        },
        out,
      );
    }
    if let Some(x) = n.get("by") {
      let n2 = n.clone();
      rec(
        x,
        &|c| {
          let mut m = n2.clone();
          if let Json::Obj(o) = &mut m {
            o.insert("by".into(), c);
          }
          rebuild(m)
        },
        out,
      );
    }
    for (i, x) in n.a("ins").iter().enumerate() {
      let n2 = n.clone();
      rec(
        x,
        &|c| {
          let mut m = n2.clone();
          if let Json::Obj(o) = &mut m {
            if let Some(Json::Arr(a)) = o.get_mut("ins") {
              a[i] = c;
            }
          }
          rebuild(m)
        },
        out,
      );
    }
  }
  rec(j, &|c| c, &mut out);
  out
}

/// every source index a pipeline refers to (incl. through flat_map/on_error_resume_next kind 5)
pub fn sources_used(j: &Json, nsrc: usize, out: &mut Vec<usize>) {
  if let Some(i) = j.get("src").and_then(|x| x.as_i64()) {
    out.push(i as usize);
  }
  if let Some(op) = j.get("op").and_then(|x| x.as_str()) {
    if (op == "flat_map" || op == "on_error_resume_next") && nsrc > 0 {
      match j.i("a").rem_euclid(7) {
        5 => out.push((j.i("a") / 7).rem_euclid(nsrc as i64) as usize),
        6 => out.extend(1..nsrc),
        _ => {}
      }
    }
  }
  for k in ["in", "by"] {
    if let Some(x) = j.get(k) {
      sources_used(x, nsrc, out);
    }
  }
  for x in j.a("ins") {
    sources_used(&x, nsrc, out);
  }
}

pub fn show(j: &Json) -> String {
  if let Some(i) = j.get("src") {
    return format!("src{}", i.as_i64().unwrap_or(-1));
  }
  if let Some(n) = j.get("new") {
    return format!("{}({})", n.as_str().unwrap_or("?"), j.get("a").map(|a| a.to_string()).unwrap_or_default());
  }
  if let Some(m) = j.get("multi") {
    return format!("{}({})", m.as_str().unwrap_or("?"), j.a("ins").iter().map(show).collect::<Vec<_>>().join(", "));
  }
  if let Some(t) = j.get("trig") {
    return format!("{}.{}({})", j.get("in").map(show).unwrap_or_default(), t.as_str().unwrap_or("?"), j.get("by").map(show).unwrap_or_default());
  }
  format!("{}.{}({})", j.get("in").map(show).unwrap_or_default(), j.s("op"), j.i("a"))
}

//! Recording subscribers and scripted, instrumented sources (DESIGN.md 4.1, 4.3).

use crate::val::*;
use another_rxrust::prelude::*;
use rxsim_rt as rt;
use std::sync::{Arc, Mutex};

// ------------------------------------------------------------------------------------------------
// recording subscriber

#[derive(Clone, Debug, PartialEq)]
pub enum Ev {
  Next(Val),
  /// ErrTok id; -1 = foreign payload; -2 = io::ErrorKind::TimedOut
  Error(i64),
  Complete,
}

impl Ev {
  pub fn show(&self) -> String {
    match self {
      Ev::Next(v) => format!("n{}", v.show()),
      Ev::Error(i) => format!("E{}", i),
      Ev::Complete => "C".into(),
    }
  }
  pub fn is_terminal(&self) -> bool {
    !matches!(self, Ev::Next(_))
  }
}

#[derive(Clone, Debug)]
pub struct Rec {
  pub seq_in: u64,
  pub seq_out: u64,
  pub task: usize,
  pub t: u64,
  pub ev: Ev,
}

pub fn err_id(e: &RxError) -> i64 {
  // a payload that arrives with another type than it was raised with decodes to -77x
  if let Some(t) = e.downcast_ref::<ErrTok>() {
    if t.0.rem_euclid(7) >= 5 {
      -777
    } else {
      t.0
    }
  } else if let Some(s) = e.downcast_ref::<String>() {
    match s.strip_prefix('e').and_then(|x| x.parse::<i64>().ok()) {
      Some(id) if id.rem_euclid(7) == 5 => id,
      _ => -779,
    }
  } else if let Some(inner) = e.downcast_ref::<RxError>() {
    match inner.downcast_ref::<ErrTok>() {
      Some(t) if t.0.rem_euclid(7) == 6 => t.0,
      _ => -778,
    }
  } else if let Some(io) = e.downcast_ref::<std::io::Error>() {
    if io.kind() == std::io::ErrorKind::TimedOut {
      -2
    } else {
      -1
    }
  } else {
    -1
  }
}

/// The payload type depends on the id, so that "the very same payload (downcast_ref to the
/// original type yields the original value)" is exercised for several original types: the token
/// struct, a String, and an RxError that itself wraps the token.
pub fn mk_err(id: i64) -> RxError {
  match id.rem_euclid(7) {
    5 => RxError::from_error(format!("e{}", id)),
    6 => RxError::from_error(RxError::from_error(ErrTok(id))),
    _ => RxError::from_error(ErrTok(id)),
  }
}

#[derive(Clone)]
pub struct Recorder {
  pub log: Arc<Mutex<Vec<Rec>>>,
  /// scheduling points inside each callback (threaded families widen the race windows)
  pub probes: u32,
  /// optional token captured by the three callbacks (C17)
  pub token: Option<Token>,
  /// virtual time the subscriber spends inside its next callback, per item index (slow consumer)
  pub next_delays_ns: Arc<Vec<u64>>,
  /// called inside every callback after the event was logged (re-entrant subscribers)
  pub hook: Option<Arc<dyn Fn(&Ev) + Send + Sync>>,
}

impl Recorder {
  pub fn new() -> Recorder {
    Recorder { log: Arc::new(Mutex::new(Vec::new())), probes: 0, token: None, next_delays_ns: Arc::new(Vec::new()), hook: None }
  }
  pub fn with_probes(n: u32) -> Recorder {
    Recorder { log: Arc::new(Mutex::new(Vec::new())), probes: n, token: None, next_delays_ns: Arc::new(Vec::new()), hook: None }
  }
  fn enter(log: &Arc<Mutex<Vec<Rec>>>, ev: Ev, probes: u32) -> usize {
    let seq_in = rt::seq();
    let idx = {
      let mut l = log.lock().unwrap();
      l.push(Rec { seq_in, seq_out: u64::MAX, task: rt::task_id().unwrap_or(0), t: rt::now_ns(), ev });
      l.len() - 1
    };
    for _ in 0..probes {
      rt::probe("subscriber-callback");
    }
    idx
  }
  fn leave(log: &Arc<Mutex<Vec<Rec>>>, idx: usize) {
    let s = rt::seq();
    log.lock().unwrap()[idx].seq_out = s;
  }
  pub fn subscribe(&self, o: &Observable<'static, Val>) -> Subscription<'static> {
    let (l1, l2, l3) = (self.log.clone(), self.log.clone(), self.log.clone());
    let p = self.probes;
    let (t1, t2, t3) = (self.token.clone(), self.token.clone(), self.token.clone());
    let delays = self.next_delays_ns.clone();
    let (h1, h2, h3) = (self.hook.clone(), self.hook.clone(), self.hook.clone());
    o.subscribe(
      move |x| {
        let _t = &t1;
        let ev = Ev::Next(x.strip());
        drop(x);
        let i = Self::enter(&l1, ev.clone(), p);
        if let Some(h) = &h1 {
          h(&ev);
        }
        if !delays.is_empty() {
          let k = l1.lock().unwrap().iter().take(i + 1).filter(|r| matches!(r.ev, Ev::Next(_))).count() - 1;
          if let Some(d) = delays.get(k) {
            if *d > 0 {
              rt::thread::sleep(std::time::Duration::from_nanos(*d));
            }
          }
        }
        Self::leave(&l1, i);
      },
      move |e| {
        let _t = &t2;
        let ev = Ev::Error(err_id(&e));
        let i = Self::enter(&l2, ev.clone(), p);
        if let Some(h) = &h2 {
          h(&ev);
        }
        Self::leave(&l2, i);
      },
      move || {
        let _t = &t3;
        let i = Self::enter(&l3, Ev::Complete, p);
        if let Some(h) = &h3 {
          h(&Ev::Complete);
        }
        Self::leave(&l3, i);
      },
    )
  }
  pub fn events(&self) -> Vec<Rec> {
    self.log.lock().unwrap().clone()
  }
  pub fn shown(&self) -> String {
    self.events().iter().map(|r| r.ev.show()).collect::<Vec<_>>().join(" ")
  }
}

/// `next* (error|complete)?` - returns a description of the first breach
pub fn contract_breach(evs: &[Rec]) -> Option<String> {
  let mut term: Option<usize> = None;
  for (i, r) in evs.iter().enumerate() {
    if let Some(t) = term {
      return Some(format!(
        "{} delivered after the terminal {} (events: {})",
        r.ev.show(),
        evs[t].ev.show(),
        evs.iter().map(|r| r.ev.show()).collect::<Vec<_>>().join(" ")
      ));
    }
    if r.ev.is_terminal() {
      term = Some(i);
    }
  }
  None
}

// ------------------------------------------------------------------------------------------------
// scripted sources

#[derive(Clone, Debug, PartialEq)]
pub enum Step {
  N(i64),
  E(i64),
  C,
}

impl Step {
  pub fn show(&self) -> String {
    match self {
      Step::N(i) => format!("n{}", i),
      Step::E(i) => format!("E{}", i),
      Step::C => "C".into(),
    }
  }
  pub fn to_json(&self) -> crate::json::Json {
    crate::json::Json::str(self.show())
  }
  pub fn from_json(j: &crate::json::Json) -> Option<Step> {
    let s = j.as_str()?;
    if s == "C" {
      Some(Step::C)
    } else if let Some(r) = s.strip_prefix('n') {
      r.parse().ok().map(Step::N)
    } else if let Some(r) = s.strip_prefix('E') {
      r.parse().ok().map(Step::E)
    } else {
      None
    }
  }
}

pub fn script_from_json(j: &crate::json::Json) -> Option<Vec<Step>> {
  j.as_arr()?.iter().map(Step::from_json).collect()
}

pub fn script_to_json(s: &[Step]) -> crate::json::Json {
  crate::json::Json::Arr(s.iter().map(|x| x.to_json()).collect())
}

#[derive(Clone, Debug)]
pub struct Emit {
  pub sub: usize,
  pub step: Step,
  pub seq_start: u64,
  pub seq_end: u64,
  pub sub_before: bool,
  pub sub_after: bool,
  pub task: usize,
  pub t: u64,
  pub t_start: u64,
}

#[derive(Default)]
pub struct SrcLog {
  pub subscriptions: Vec<(u64, usize)>, // (seq, task) of each subscribe call
  pub emits: Vec<Emit>,
}

/// emit one step through `o`, recording stamps and the `is_subscribed` probe around it
pub fn emit(o: &Observer<'static, Val>, sub: usize, step: &Step, log: &Arc<Mutex<SrcLog>>, token: &Option<Token>) {
  let seq_start = rt::seq();
  let t_start = rt::now_ns();
  let sub_before = o.is_subscribed();
  match step {
    Step::N(i) => o.next(match token {
      Some(t) => Val::Tok(*i, t.clone()),
      None => Val::Int(*i),
    }),
    Step::E(i) => o.error(mk_err(*i)),
    Step::C => o.complete(),
  }
  let sub_after = o.is_subscribed();
  let seq_end = rt::seq();
  log.lock().unwrap().emits.push(Emit {
    sub,
    step: step.clone(),
    seq_start,
    seq_end,
    sub_before,
    sub_after,
    task: rt::task_id().unwrap_or(0),
    t: rt::now_ns(),
    t_start,
  });
}

/// A hot, step-driven source: `observable()` hands out an observable whose subscribe function
/// only stores the observer; the driver then calls `step`.
#[derive(Clone)]
pub struct HotSource {
  pub log: Arc<Mutex<SrcLog>>,
  pub observers: Arc<Mutex<Vec<Observer<'static, Val>>>>,
  pub token: Option<Token>,
}

impl HotSource {
  pub fn new() -> HotSource {
    HotSource { log: Arc::new(Mutex::new(SrcLog::default())), observers: Arc::new(Mutex::new(Vec::new())), token: None }
  }
  pub fn observable(&self) -> Observable<'static, Val> {
    let (log, obs) = (self.log.clone(), self.observers.clone());
    Observable::create(move |s| {
      log.lock().unwrap().subscriptions.push((rt::seq(), rt::task_id().unwrap_or(0)));
      obs.lock().unwrap().push(s);
    })
  }
  pub fn n_subscribed(&self) -> usize {
    self.observers.lock().unwrap().len()
  }
  /// emit to the observer of subscription `sub` (if it exists)
  pub fn step_sub(&self, sub: usize, step: &Step) {
    let o = self.observers.lock().unwrap().get(sub).cloned();
    if let Some(o) = o {
      emit(&o, sub, step, &self.log, &self.token);
    }
  }
  /// emit to every observer handed out so far (like a subject without bookkeeping)
  pub fn step_all(&self, step: &Step) {
    let os: Vec<_> = self.observers.lock().unwrap().clone();
    for (i, o) in os.iter().enumerate() {
      emit(o, i, step, &self.log, &self.token);
    }
  }
  pub fn is_subscribed(&self, sub: usize) -> Option<bool> {
    let o = self.observers.lock().unwrap().get(sub).cloned();
    o.map(|o| o.is_subscribed())
  }
  /// drop the observers this source holds (C17: the harness drops its own handles)
  pub fn clear(&self) {
    self.observers.lock().unwrap().clear();
  }
}

/// cold source: plays `scripts[min(k, len-1)]` inside the k-th subscribe call
pub fn cold_source(scripts: Vec<Vec<Step>>, log: Arc<Mutex<SrcLog>>, token: Option<Token>, stop_when_unsubscribed: bool) -> Observable<'static, Val> {
  Observable::create(move |s| {
    let k = {
      let mut l = log.lock().unwrap();
      l.subscriptions.push((rt::seq(), rt::task_id().unwrap_or(0)));
      l.subscriptions.len() - 1
    };
    let script = &scripts[k.min(scripts.len() - 1)];
    for st in script {
      if stop_when_unsubscribed && !s.is_subscribed() {
        break;
      }
      emit(&s, k, st, &log, &token);
    }
  })
}

/// threaded source: each subscription starts a harness task that plays the script
pub fn threaded_source(
  name: &'static str,
  script: Vec<Step>,
  log: Arc<Mutex<SrcLog>>,
  check_subscribed: bool,
  gaps_ns: Vec<u64>,
  handles: Arc<Mutex<Vec<rt::thread::JoinHandle<()>>>>,
) -> Observable<'static, Val> {
  Observable::create(move |s| {
    let k = {
      let mut l = log.lock().unwrap();
      l.subscriptions.push((rt::seq(), rt::task_id().unwrap_or(0)));
      l.subscriptions.len() - 1
    };
    let (script, log, gaps) = (script.clone(), log.clone(), gaps_ns.clone());
    let h = rt::spawn_harness(name, move || {
      for (i, st) in script.iter().enumerate() {
        if let Some(g) = gaps.get(i) {
          if *g > 0 {
            rt::thread::sleep(std::time::Duration::from_nanos(*g));
          }
        }
        if check_subscribed && !s.is_subscribed() {
          break;
        }
        emit(&s, k, st, &log, &None);
      }
    });
    handles.lock().unwrap().push(h);
  })
}

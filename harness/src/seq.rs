//! Sequential (single driver task) scenarios: scripted hot / cold / subject sources feeding a
//! generated pipeline, stepped by a driver in a generated order, with unsubscribe actions.
//! Shared by C01, C05 (sequential part), C06, C17, C14 and the C07 union.

use crate::json::Json;
use crate::pipe;
use crate::rec::*;
use crate::val::*;
use another_rxrust::prelude::*;
use rxsim_rt as rt;
use rxsim_rt::RunCfg;
use std::sync::{Arc, Mutex};

#[derive(Clone, Debug, PartialEq)]
pub enum Mode {
  Hot,
  Cold,
  /// cold, but polls is_subscribed between items like the crate's own producers
  ColdPolite,
  Subject,
  /// a real ReplaySubject driven step by step (every subscription is handed the history first)
  ReplaySubject,
}

#[derive(Clone, Debug)]
pub struct SrcSpec {
  pub mode: Mode,
  /// script of the k-th subscription (the last one repeats)
  pub scripts: Vec<Vec<Step>>,
}

pub const ACT_UNSUB: i64 = -1;
pub const ACT_DROP_USING: i64 = -2;
/// the scope owning the Using guard is left by a panic that is caught further up
pub const ACT_DROP_USING_UNWINDING: i64 = -3;

#[derive(Clone, Debug)]
pub struct SeqSpec {
  pub pipeline: Json,
  pub sources: Vec<SrcSpec>,
  /// >= 0: emit the next scripted step of that (hot/subject) source; ACT_*: driver actions
  pub order: Vec<i64>,
  pub use_using: bool,
  pub tokens: bool,
  pub allow_threads: bool,
  /// drop every handle at the end and count live tokens (C17)
  pub drop_all: bool,
  /// re-entrant subscriber: [on "next"/"terminal", action] - inside the callback the subscriber
  /// steps hot/subject source `i` (action >= 0), unsubscribes itself (-1); each entry fires once
  pub reenter: Vec<(bool, i64)>,
  /// wrap the inner observables of flat_map in probe stages (C03)
  pub probe_inners: bool,
  /// the subscriber's callbacks keep a clone of their own Subscription (as callbacks that
  /// unsubscribe themselves do): only the library's release of the callbacks breaks that cycle (C17)
  pub keep_sub: bool,
}

pub fn src_to_json(s: &SrcSpec) -> Json {
  Json::obj(vec![
    (
      "mode",
      Json::str(match s.mode {
        Mode::Hot => "hot",
        Mode::Cold => "cold",
        Mode::ColdPolite => "cold-polite",
        Mode::Subject => "subject",
        Mode::ReplaySubject => "replay-subject",
      }),
    ),
    ("scripts", Json::arr(s.scripts.iter(), |x| script_to_json(x))),
  ])
}

pub fn spec_from_json(w: &Json) -> Option<SeqSpec> {
  let mut sources = Vec::new();
  for s in w.a("sources") {
    let mode = match s.s("mode").as_str() {
      "hot" => Mode::Hot,
      "cold" => Mode::Cold,
      "cold-polite" => Mode::ColdPolite,
      "subject" => Mode::Subject,
      "replay-subject" => Mode::ReplaySubject,
      _ => return None,
    };
    let mut scripts = Vec::new();
    for sc in s.a("scripts") {
      let x = script_from_json(&sc)?;
      if x.len() > 16 {
        return None;
      }
      scripts.push(x);
    }
    if scripts.is_empty() || scripts.len() > 6 {
      return None;
    }
    sources.push(SrcSpec { mode, scripts });
  }
  if sources.len() > 4 {
    return None;
  }
  let order: Vec<i64> = w.a("order").iter().filter_map(|x| x.as_i64()).collect();
  if order.len() > 64 || order.iter().any(|o| *o >= sources.len() as i64 || *o < -3) {
    return None;
  }
  Some(SeqSpec {
    pipeline: w.get("pipeline")?.clone(),
    sources,
    order,
    use_using: w.b("use_using"),
    tokens: w.b("tokens"),
    allow_threads: w.b("allow_threads"),
    drop_all: w.b("drop_all"),
    probe_inners: w.b("probe_inners"),
    keep_sub: w.get("keep_sub").is_some() && w.b("keep_sub"),
    reenter: {
      let mut v = Vec::new();
      for r in w.a("reenter") {
        let on_terminal = match r.s("on").as_str() {
          "terminal" => true,
          "next" => false,
          _ => return None,
        };
        let act = r.i("do");
        if act >= w.a("sources").len() as i64 || act < -1 {
          return None;
        }
        v.push((on_terminal, act));
      }
      if v.len() > 3 {
        return None;
      }
      v
    },
  })
}

#[derive(Clone, Debug)]
pub struct SubjectEmit {
  pub src: usize,
  pub step: Step,
  pub seq_start: u64,
  pub seq_end: u64,
  pub observers_before: usize,
}

pub struct SeqRun {
  pub res: rt::RunResult,
  pub rec: Recorder,
  pub built: bool,
  pub src_logs: Vec<Arc<Mutex<SrcLog>>>,
  pub subject_emits: Vec<SubjectEmit>,
  /// (seq before the call, seq after it returned)
  pub unsubs: Vec<(u64, u64)>,
  /// (seq, Subscription::is_subscribed()) sampled after subscribe and after every driver step
  pub samples: Vec<(u64, bool)>,
  pub subscribe_returned: u64,
  pub probes: Vec<pipe::ProbeLog>,
  pub inner_probes: Vec<pipe::ProbeLog>,
  pub subject_counts_end: Vec<(usize, usize)>,
  pub taps: (u64, u64, u64),
  pub live_tokens: Option<usize>,
  /// the same count taken after the caller dropped Observable and Subscription but while its
  /// sources are still alive (the harness's own clones subtracted)
  pub live_tokens_sources_alive: Option<usize>,
  pub steps_done: Vec<usize>,
}

enum Live {
  Hot(HotSource),
  Cold,
  Subject(subjects::Subject<'static, Val>),
  Replay(subjects::ReplaySubject<'static, Val>),
}

pub fn run_seq(spec: &SeqSpec, cfg: RunCfg) -> SeqRun {
  let rec = Recorder::new();
  let master = Token(Arc::new(()));
  let src_logs: Vec<Arc<Mutex<SrcLog>>> = spec.sources.iter().map(|_| Arc::new(Mutex::new(SrcLog::default()))).collect();
  struct Out {
    built: bool,
    subject_emits: Vec<SubjectEmit>,
    unsubs: Vec<(u64, u64)>,
    samples: Vec<(u64, bool)>,
    subscribe_returned: u64,
    probes: Vec<pipe::ProbeLog>,
    inner_probes: Vec<pipe::ProbeLog>,
    subject_counts_end: Vec<(usize, usize)>,
    taps: (u64, u64, u64),
    steps_done: Vec<usize>,
  }
  let out = Arc::new(Mutex::new(Out {
    built: false,
    subject_emits: vec![],
    unsubs: vec![],
    samples: vec![],
    subscribe_returned: 0,
    probes: vec![],
    inner_probes: vec![],
    subject_counts_end: vec![],
    taps: (0, 0, 0),
    steps_done: vec![0; spec.sources.len()],
  }));
  let (out2, spec2, logs2) = (out.clone(), spec.clone(), src_logs.clone());
  let mut rec2 = rec.clone();
  let tok_for_run = if spec.tokens { Some(master.clone()) } else { None };
  if spec.tokens {
    rec2.token = tok_for_run.clone();
  }
  let tok_probe = tok_for_run.clone();
  let alive_cell: Arc<Mutex<Option<usize>>> = Arc::new(Mutex::new(None));
  let alive_cell2 = alive_cell.clone();
  let res = rt::run(cfg, move || {
    let alive_cell = alive_cell2;
    let spec = spec2;
    let mut lives: Vec<Live> = Vec::new();
    let mut obs: Vec<Observable<'static, Val>> = Vec::new();
    for (i, s) in spec.sources.iter().enumerate() {
      match s.mode {
        Mode::Hot => {
          let mut h = HotSource::new();
          h.log = logs2[i].clone();
          h.token = tok_for_run.clone();
          obs.push(h.observable());
          lives.push(Live::Hot(h));
        }
        Mode::Cold | Mode::ColdPolite => {
          obs.push(cold_source(s.scripts.clone(), logs2[i].clone(), tok_for_run.clone(), s.mode == Mode::ColdPolite));
          lives.push(Live::Cold);
        }
        Mode::Subject => {
          let sb = subjects::Subject::<Val>::new();
          obs.push(sb.observable());
          lives.push(Live::Subject(sb));
        }
        Mode::ReplaySubject => {
          let sb = subjects::ReplaySubject::<Val>::new();
          obs.push(sb.observable());
          lives.push(Live::Replay(sb));
        }
      }
    }
    let mut ctx = pipe::Ctx::new(obs);
    ctx.token = tok_for_run.clone();
    ctx.allow_threads = spec.allow_threads;
    if spec.probe_inners {
      ctx.inner_probes = Some(Arc::new(Mutex::new(Vec::new())));
    }
    let o = match pipe::build(&spec.pipeline, &ctx) {
      Some(o) => o,
      None => return,
    };
    out2.lock().unwrap().built = true;
    let lives = Arc::new(lives);
    let pos: Arc<Mutex<Vec<usize>>> = Arc::new(Mutex::new(vec![0; spec.sources.len()]));
    // one scripted step of source i (used by the driver and by re-entrant subscribers)
    let step_src: Arc<dyn Fn(usize) + Send + Sync> = {
      let (lives, pos, sources, out2, tok) = (lives.clone(), pos.clone(), spec.sources.clone(), out2.clone(), tok_for_run.clone());
      let last_nsub: Arc<Mutex<Vec<usize>>> = Arc::new(Mutex::new(vec![0; spec.sources.len()]));
      Arc::new(move |i: usize| match &lives[i] {
        Live::Hot(h) => {
          let nsub = h.n_subscribed();
          if nsub == 0 {
            return;
          }
          let sc = &sources[i].scripts[(nsub - 1).min(sources[i].scripts.len() - 1)];
          let st = {
            let mut p = pos.lock().unwrap();
            // a new subscription starts its script from the beginning
            {
              let mut ln = last_nsub.lock().unwrap();
              if ln[i] != nsub {
                if ln[i] != 0 {
                  p[i] = 0;
                }
                ln[i] = nsub;
              }
            }
            if p[i] < sc.len() {
              p[i] += 1;
              Some(sc[p[i] - 1].clone())
            } else {
              None
            }
          };
          if let Some(st) = st {
            h.step_all(&st);
          }
        }
        Live::Subject(sb) => {
          let sc = &sources[i].scripts[0];
          let st = {
            let mut p = pos.lock().unwrap();
            if p[i] < sc.len() {
              p[i] += 1;
              Some(sc[p[i] - 1].clone())
            } else {
              None
            }
          };
          if let Some(st) = st {
            let before = sb.verif_observer_count();
            let seq_start = rt::seq();
            match &st {
              Step::N(v) => sb.next(match &tok {
                Some(t) => Val::Tok(*v, t.clone()),
                None => Val::Int(*v),
              }),
              Step::E(e) => sb.error(mk_err(*e)),
              Step::C => sb.complete(),
            }
            let seq_end = rt::seq();
            out2.lock().unwrap().subject_emits.push(SubjectEmit { src: i, step: st, seq_start, seq_end, observers_before: before });
          }
        }
        Live::Replay(sb) => {
          let sc = &sources[i].scripts[0];
          let st = {
            let mut p = pos.lock().unwrap();
            if p[i] < sc.len() {
              p[i] += 1;
              Some(sc[p[i] - 1].clone())
            } else {
              None
            }
          };
          if let Some(st) = st {
            let before = sb.verif_observer_count();
            let seq_start = rt::seq();
            match &st {
              Step::N(v) => sb.next(match &tok {
                Some(t) => Val::Tok(*v, t.clone()),
                None => Val::Int(*v),
              }),
              Step::E(e) => sb.error(mk_err(*e)),
              Step::C => sb.complete(),
            }
            let seq_end = rt::seq();
            out2.lock().unwrap().subject_emits.push(SubjectEmit { src: i, step: st, seq_start, seq_end, observers_before: before });
          }
        }
        Live::Cold => {}
      })
    };
    let sub_cell: Arc<Mutex<Option<Subscription<'static>>>> = Arc::new(Mutex::new(None));
    if !spec.reenter.is_empty() {
      let pending = Arc::new(Mutex::new(spec.reenter.clone()));
      let (step_src, sub_cell, out2) = (step_src.clone(), sub_cell.clone(), out2.clone());
      rec2.hook = Some(Arc::new(move |ev: &Ev| {
        let act = {
          let mut p = pending.lock().unwrap();
          match p.iter().position(|(on_t, _)| *on_t == ev.is_terminal()) {
            Some(k) => Some(p.remove(k).1),
            None => None,
          }
        };
        match act {
          Some(i) if i >= 0 => step_src(i as usize),
          Some(_) => {
            let s = sub_cell.lock().unwrap().clone();
            if let Some(s) = s {
              let a = rt::seq();
              s.unsubscribe();
              let b = rt::seq();
              out2.lock().unwrap().unsubs.push((a, b));
            }
          }
          None => {}
        }
      }));
    }
    let own_sub: Arc<Mutex<Option<Subscription<'static>>>> = Arc::new(Mutex::new(None));
    if spec.keep_sub && spec.reenter.is_empty() {
      let own_sub = own_sub.clone();
      rec2.hook = Some(Arc::new(move |_ev: &Ev| {
        let _ = own_sub.lock().unwrap().is_some();
      }));
    }
    let sub = rec2.subscribe(&o);
    *sub_cell.lock().unwrap() = Some(sub.clone());
    if spec.keep_sub && spec.reenter.is_empty() {
      *own_sub.lock().unwrap() = Some(sub.clone());
    }
    drop(own_sub);
    let mut using = if spec.use_using { Some(utils::Using::new(sub.clone())) } else { None };
    {
      let mut g = out2.lock().unwrap();
      g.subscribe_returned = rt::seq();
    }
    let sample = |sub: &Subscription<'static>| {
      let b = sub.is_subscribed();
      out2.lock().unwrap().samples.push((rt::seq(), b));
    };
    sample(&sub);
    for act in &spec.order {
      if *act >= 0 {
        step_src(*act as usize);
      } else if *act == ACT_UNSUB {
        let a = rt::seq();
        sub.unsubscribe();
        let b = rt::seq();
        out2.lock().unwrap().unsubs.push((a, b));
      } else if *act == ACT_DROP_USING {
        if let Some(u) = using.take() {
          let a = rt::seq();
          drop(u);
          let b = rt::seq();
          out2.lock().unwrap().unsubs.push((a, b));
        }
      } else if *act == ACT_DROP_USING_UNWINDING {
        if let Some(u) = using.take() {
          let a = rt::seq();
          let _ = std::panic::catch_unwind(std::panic::AssertUnwindSafe(move || {
            let _guard = u;
            std::panic::resume_unwind(Box::new("scope left by a panic"));
          }));
          let b = rt::seq();
          out2.lock().unwrap().unsubs.push((a, b));
        }
      }
      sample(&sub);
    }
    *sub_cell.lock().unwrap() = None;
    rec2.hook = None;
    let pos: Vec<usize> = pos.lock().unwrap().clone();
    if spec.allow_threads {
      rt::quiesce();
    }
    {
      let mut g = out2.lock().unwrap();
      g.steps_done = pos.clone();
      for (i, l) in lives.iter().enumerate() {
        if let Live::Subject(sb) = l {
          g.subject_counts_end.push((i, sb.verif_observer_count()));
        }
        if let Live::Replay(sb) = l {
          g.subject_counts_end.push((i, sb.verif_observer_count()));
        }
      }
      let _ = &step_src;
      let t = ctx.taps.lock().unwrap();
      g.taps = (t.next, t.error, t.complete);
      for p in ctx.probes.lock().unwrap().iter() {
        let p = p.lock().unwrap();
        g.probes.push(pipe::ProbeLog { subscribed: p.subscribed.clone(), events: p.events.clone() });
      }
      if let Some(ip) = &ctx.inner_probes {
        for p in ip.lock().unwrap().iter() {
          let p = p.lock().unwrap();
          g.inner_probes.push(pipe::ProbeLog { subscribed: p.subscribed.clone(), events: p.events.clone() });
        }
      }
    }
    if spec.drop_all {
      // the caller drops its Observable and Subscription handles and its own source handles
      drop(using.take());
      drop(sub);
      drop(o);
      drop(ctx);
      if let Some(t) = &tok_probe {
        if spec.allow_threads {
          rt::quiesce();
        }
        // clones the harness itself still holds: the master outside the run, this probe, the
        // recorder, the step closure, one per hot source
        let n_hot = lives.iter().filter(|l| matches!(l, Live::Hot(_))).count();
        let own = 5 + n_hot; // (+ the run closure's own handle `tok_for_run`)
        *alive_cell.lock().unwrap() = Some(Arc::strong_count(&t.0).saturating_sub(own));
      }
      for l in lives.iter() {
        if let Live::Hot(h) = l {
          h.clear();
        }
      }
      drop(step_src);
      drop(lives);
      if spec.allow_threads {
        rt::quiesce();
      }
    } else {
      // keep everything alive until the end of the run
      std::mem::drop((sub, o, ctx, lives, using, step_src));
    }
  });
  let live_tokens_sources_alive: Option<usize> = *alive_cell.lock().unwrap();
  let live_tokens = if spec.tokens && spec.drop_all {
    // the recorder clone used inside the run is gone; `rec` (no token) and `master` remain
    Some(Arc::strong_count(&master.0) - 1)
  } else {
    None
  };
  let o = std::mem::replace(
    &mut *out.lock().unwrap(),
    Out { built: false, subject_emits: vec![], unsubs: vec![], samples: vec![], subscribe_returned: 0, probes: vec![], inner_probes: vec![], subject_counts_end: vec![], taps: (0, 0, 0), steps_done: vec![] },
  );
  SeqRun {
    res,
    rec,
    built: o.built,
    src_logs,
    subject_emits: o.subject_emits,
    unsubs: o.unsubs,
    samples: o.samples,
    subscribe_returned: o.subscribe_returned,
    probes: o.probes,
    inner_probes: o.inner_probes,
    subject_counts_end: o.subject_counts_end,
    taps: o.taps,
    live_tokens,
    live_tokens_sources_alive,
    steps_done: o.steps_done,
  }
}

pub fn history(r: &SeqRun) -> Vec<String> {
  let mut h = Vec::new();
  for (i, l) in r.src_logs.iter().enumerate() {
    let l = l.lock().unwrap();
    for (k, (s, _)) in l.subscriptions.iter().enumerate() {
      h.push(format!("{:>4}       src{} subscribed (#{})", s, i, k));
    }
    for e in &l.emits {
      h.push(format!("{:>4}..{:<4} src{}#{} emits {} (is_subscribed before/after: {}/{})", e.seq_start, e.seq_end, i, e.sub, e.step.show(), e.sub_before, e.sub_after));
    }
  }
  for e in &r.subject_emits {
    h.push(format!("{:>4}..{:<4} subject src{} {} ({} observers before)", e.seq_start, e.seq_end, e.src, e.step.show(), e.observers_before));
  }
  for e in r.rec.events() {
    h.push(format!("{:>4}..{:<4} subscriber gets {}", e.seq_in, e.seq_out, e.ev.show()));
  }
  for (a, b) in &r.unsubs {
    h.push(format!("{:>4}..{:<4} unsubscribe", a, b));
  }
  for (i, p) in r.probes.iter().enumerate() {
    for e in &p.events {
      h.push(format!("{:>4}       probe{} sees {}", e.seq, i, e.ev.show()));
    }
  }
  h.sort();
  h
}

pub fn fp(h: &[String]) -> u64 {
  let mut fp = 0u64;
  for x in h {
    fp = fp.wrapping_mul(0x100000001B3) ^ crate::common::fnv(x.split_whitespace().skip(1).collect::<Vec<_>>().join(" ").as_str());
  }
  fp
}

// ------------------------------------------------------------------------------------------------
// script generators

use rxsim_rt::prng::Rng;

/// well-formed: items, then complete / error / nothing
pub fn gen_script(rng: &mut Rng, base: i64, maxlen: u64, allow_silence: bool) -> Vec<Step> {
  let n = rng.below(maxlen + 1);
  let mut s: Vec<Step> = (0..n).map(|i| Step::N(base + i as i64)).collect();
  match rng.below(if allow_silence { 6 } else { 5 }) {
    0 | 1 | 2 => s.push(Step::C),
    3 | 4 => s.push(Step::E(base / 100 + 1)),
    _ => {}
  }
  s
}

/// the `proto` fault: a well-formed prefix followed by up to 4 further events after the terminal
pub fn gen_ill_script(rng: &mut Rng, base: i64, maxlen: u64) -> Vec<Step> {
  let mut s = gen_script(rng, base, maxlen, true);
  if s.last().map_or(false, |x| !matches!(x, Step::N(_))) && rng.below(4) != 0 {
    let extra = rng.range(1, 4);
    for k in 0..extra {
      s.push(match rng.below(3) {
        0 => Step::N(base + 50 + k as i64),
        1 => Step::E(base / 100 + 5),
        _ => Step::C,
      });
    }
  }
  s
}

pub fn gen_order(rng: &mut Rng, sources: &[SrcSpec], extra: usize) -> Vec<i64> {
  // a random interleaving of the hot sources' scripts (plus some surplus steps)
  let mut remaining: Vec<usize> = sources
    .iter()
    .map(|s| if matches!(s.mode, Mode::Hot | Mode::Subject | Mode::ReplaySubject) { s.scripts.iter().map(|x| x.len()).max().unwrap_or(0) + extra } else { 0 })
    .collect();
  let mut order = Vec::new();
  loop {
    let live: Vec<usize> = (0..remaining.len()).filter(|i| remaining[*i] > 0).collect();
    if live.is_empty() || order.len() >= 48 {
      break;
    }
    let i = *rng.pick(&live);
    remaining[i] -= 1;
    order.push(i as i64);
  }
  order
}

//! Threaded multi-input scenarios shared by C11 (conservation) and C19 (observer contract
//! under racing inputs): every input of a combinator emits from its own simulated thread.

use crate::common::*;
use crate::json::Json;
use crate::rec::*;
use crate::val::*;
use another_rxrust::prelude::*;
use rxsim_rt as rt;
use rxsim_rt::prng::Rng;
use rxsim_rt::RunCfg;
use std::sync::{Arc, Mutex};

pub const OPS_MULTI: &[&str] = &["merge", "zip", "amb", "concat", "flat_map"];
/// further multi-input operators, only judged for the observer contract (C19)
pub const OPS_MULTI_C19: &[&str] = &["combine_latest", "sequence_equal", "switch_on_next"];
pub const OPS_TRIGGER: &[&str] = &["take_until", "skip_until", "sample"];

pub struct Scenario {
  pub op: String,
  pub scripts: Vec<Vec<Step>>,
  pub take: i64,
  pub cb_probes: u32,
  pub check_subscribed: bool,
  pub via_map: bool,
  /// the same Observable value is subscribed a second time once the first subscription has run out (C11)
  pub resubscribe: bool,
}

pub fn scenario_from_json(w: &Json) -> Option<Scenario> {
  let op = w.s("op");
  if !OPS_MULTI.contains(&op.as_str()) && !OPS_TRIGGER.contains(&op.as_str()) && !OPS_MULTI_C19.contains(&op.as_str()) {
    return None;
  }
  if op == "switch_on_next" && w.a("inputs").len() != 2 {
    return None;
  }
  let mut scripts = Vec::new();
  for s in w.a("inputs") {
    scripts.push(script_from_json(&s)?);
  }
  if scripts.is_empty() || scripts.len() > 4 {
    return None;
  }
  if OPS_TRIGGER.contains(&op.as_str()) && scripts.len() != 2 {
    return None;
  }
  // flat_map: one outer source, or two merged ones (outer items then arrive from two threads)
  if op == "flat_map" && scripts.len() > 2 {
    return None;
  }
  // unique items, well-formed scripts
  let mut seen = std::collections::BTreeSet::new();
  for sc in &scripts {
    if sc.len() > 8 {
      return None;
    }
    let nterm = sc.iter().filter(|s| !matches!(s, Step::N(_))).count();
    if nterm > 1 || (nterm == 1 && matches!(sc.last(), Some(Step::N(_)))) {
      return None;
    }
    for s in sc {
      if let Step::N(i) = s {
        if !seen.insert(*i) || *i <= 0 || *i >= 100_000 {
          return None;
        }
      }
    }
  }
  Some(Scenario {
    op,
    scripts,
    take: w.i("take"),
    cb_probes: w.i("cb_probes").clamp(0, 3) as u32,
    check_subscribed: w.b("check_subscribed"),
    resubscribe: w.get("resubscribe").is_some() && w.b("resubscribe"), via_map: w.b("via_map"),
  })
}

pub struct Ran {
  pub res: rt::RunResult,
  pub rec: Recorder,
  /// the recorder of the second subscription of the same value, if there was one
  pub rec_b: Option<Recorder>,
  pub logs: Vec<Arc<Mutex<SrcLog>>>,
  /// flat_map inner sources: (outer item, log)
  pub inner_logs: Arc<Mutex<Vec<(i64, Arc<Mutex<SrcLog>>)>>>,
}

/// inner script of flat_map for outer item x: two items, then complete
pub fn inner_script(x: i64) -> Vec<Step> {
  vec![Step::N(x * 10), Step::N(x * 10 + 1), Step::C]
}

pub fn run_scenario(sc: &Scenario, cfg: RunCfg) -> Ran {
  let rec = Recorder::with_probes(sc.cb_probes);
  let logs: Vec<Arc<Mutex<SrcLog>>> = sc.scripts.iter().map(|_| Arc::new(Mutex::new(SrcLog::default()))).collect();
  let inner_logs: Arc<Mutex<Vec<(i64, Arc<Mutex<SrcLog>>)>>> = Arc::new(Mutex::new(Vec::new()));
  let (rec2, logs2, il2) = (rec.clone(), logs.clone(), inner_logs.clone());
  let rec_b = if sc.resubscribe { Some(Recorder::with_probes(sc.cb_probes)) } else { None };
  let rec_b2 = rec_b.clone();
  let (op, scripts, take, check, via_map) = (sc.op.clone(), sc.scripts.clone(), sc.take, sc.check_subscribed, sc.via_map);
  let res = rt::run(cfg, move || {
    let handles = Arc::new(Mutex::new(Vec::new()));
    let names: [&'static str; 4] = ["input0", "input1", "input2", "input3"];
    let inputs: Vec<Observable<'static, Val>> = scripts
      .iter()
      .enumerate()
      .map(|(i, s)| threaded_source(names[i], s.clone(), logs2[i].clone(), check, vec![], handles.clone()))
      .collect();
    let mut o: Observable<'static, Val> = match op.as_str() {
      "merge" => inputs[0].merge(&inputs[1..]),
      "amb" => inputs[0].amb(&inputs[1..]),
      "concat" => inputs[0].concat(&inputs[1..]),
      "zip" => inputs[0].zip(&inputs[1..]).map(|v: Vec<Val>| Val::List(v)),
      "combine_latest" => inputs[0].combine_latest(&inputs[1..], |v: Vec<Val>| Val::List(v)),
      "sequence_equal" => inputs[0].sequence_equal(&inputs[1..]).map(Val::Bool),
      "switch_on_next" => inputs[0].switch_on_next(inputs[1].clone()),
      "flat_map" => {
        let (il, hs) = (il2.clone(), handles.clone());
        let outer = if inputs.len() == 1 { inputs[0].clone() } else { inputs[0].merge(&inputs[1..]) };
        outer.flat_map(move |x: Val| {
          let log = Arc::new(Mutex::new(SrcLog::default()));
          il.lock().unwrap().push((x.int(), log.clone()));
          threaded_source("inner", inner_script(x.int()), log, check, vec![], hs.clone())
        })
      }
      "take_until" => inputs[0].take_until(inputs[1].clone()),
      "skip_until" => inputs[0].skip_until(inputs[1].clone()),
      _ => inputs[0].sample(inputs[1].clone()),
    };
    if take >= 0 {
      o = o.take(take as usize);
    }
    if via_map {
      o = o.map(|x: Val| x);
    }
    let _sub = rec2.subscribe(&o);
    // wait for every source thread (new ones may appear while we wait)
    loop {
      let hs: Vec<_> = std::mem::take(&mut *handles.lock().unwrap());
      if hs.is_empty() {
        break;
      }
      for h in hs {
        let _ = h.join();
      }
    }
    if let Some(rb) = &rec_b2 {
      // every input is cold (a thread per subscription): the second subscription gets its own producers
      rt::quiesce();
      let _sub_b = rb.subscribe(&o);
      loop {
        let hs: Vec<_> = std::mem::take(&mut *handles.lock().unwrap());
        if hs.is_empty() {
          break;
        }
        for h in hs {
          let _ = h.join();
        }
      }
    }
    rt::quiesce();
  });
  Ran { res, rec, rec_b, logs, inner_logs }
}

pub fn history_of(ran: &Ran) -> Vec<String> {
  let mut h = Vec::new();
  for (i, l) in ran.logs.iter().enumerate() {
    for e in &l.lock().unwrap().emits {
      h.push(format!("{:>4}..{:<4} t{} input{} emits {} (subscribed before/after: {}/{})", e.seq_start, e.seq_end, e.task, i, e.step.show(), e.sub_before, e.sub_after));
    }
  }
  for (x, l) in ran.inner_logs.lock().unwrap().iter() {
    for e in &l.lock().unwrap().emits {
      h.push(format!("{:>4}..{:<4} t{} inner({}) emits {}", e.seq_start, e.seq_end, e.task, x, e.step.show()));
    }
  }
  for r in ran.rec.events() {
    h.push(format!("{:>4}..{:<4} t{} subscriber gets {}", r.seq_in, r.seq_out, r.task, r.ev.show()));
  }
  if let Some(b) = &ran.rec_b {
    for r in b.events() {
      h.push(format!("{:>4}..{:<4} t{} second subscriber gets {}", r.seq_in, r.seq_out, r.task, r.ev.show()));
    }
  }
  h.sort();
  h
}

pub fn fp_of(h: &[String]) -> u64 {
  let mut fp = 0u64;
  for x in h {
    fp = fp.wrapping_mul(0x100000001B3) ^ fnv(x.split_whitespace().skip(1).collect::<Vec<_>>().join(" ").as_str());
  }
  fp
}

fn gen_scripts(rng: &mut Rng, n: usize, maxlen: u64, terminal: impl Fn(&mut Rng, usize) -> Option<Step>) -> Vec<Json> {
  (0..n)
    .map(|p| {
      let len = rng.below(maxlen + 1);
      let mut s: Vec<Step> = (0..len).map(|i| Step::N((p as i64 + 1) * 100 + i as i64)).collect();
      if let Some(t) = terminal(rng, p) {
        s.push(t);
      }
      script_to_json(&s)
    })
    .collect()
}

// ================================================================================================
// C19: operators

pub struct C19Ops;

/// emission start stamp of the event that caused a delivered value (conservative: earliest candidate)
fn origin_start(ran: &Ran, v: &Val) -> Option<u64> {
  let find = |i: i64| -> Option<u64> {
    for l in &ran.logs {
      for e in &l.lock().unwrap().emits {
        if e.step == Step::N(i) {
          return Some(e.seq_start);
        }
      }
    }
    for (_, l) in ran.inner_logs.lock().unwrap().iter() {
      for e in &l.lock().unwrap().emits {
        if e.step == Step::N(i) {
          return Some(e.seq_start);
        }
      }
    }
    None
  };
  match v {
    Val::List(xs) => xs.iter().filter_map(|x| find(x.int())).max(),
    x => find(x.int()),
  }
}

pub fn c19_oracle(ran: &Ran, blame: &str) -> Vec<Violation> {
  let mut v = Vec::new();
  match &ran.res.outcome {
    rt::Outcome::Ok | rt::Outcome::Leak { .. } => {}
    // blocked runs are C07's business (DESIGN 4.6); only the contract is judged here
    _ => return v,
  }
  let evs = ran.rec.events();
  let terms: Vec<&Rec> = evs.iter().filter(|r| r.ev.is_terminal()).collect();
  if terms.len() > 1 {
    v.push(Violation::new(
      "terminal-twice",
      blame,
      format!("subscriber received {} terminal notifications: {}", terms.len(), evs.iter().map(|r| r.ev.show()).collect::<Vec<_>>().join(" ")),
    ));
  }
  if let Some(t) = terms.first() {
    let r_stamp = t.seq_out;
    for r in &evs {
      if let Ev::Next(x) = &r.ev {
        if r.seq_in > r_stamp {
          if let Some(os) = origin_start(ran, x) {
            if os > r_stamp {
              v.push(Violation::new(
                "delivered-after-terminal",
                blame,
                format!("{} was delivered at {} although its emission started at {} after the terminal callback {} had returned at {}", r.ev.show(), r.seq_in, os, t.ev.show(), r_stamp),
              ));
            }
          }
        }
      }
    }
  }
  v
}

impl Family for C19Ops {
  fn name(&self) -> &'static str {
    "c19-racing-inputs"
  }
  fn threaded(&self) -> bool {
    true
  }
  fn gen(&self, rng: &mut Rng, tier: Tier) -> Json {
    let maxlen = if tier == Tier::Quick { 3 } else { 4 };
    let trigger = rng.below(3) == 0;
    let op = if trigger {
      *rng.pick(OPS_TRIGGER)
    } else if rng.below(4) == 0 {
      *rng.pick(OPS_MULTI_C19)
    } else {
      *rng.pick(OPS_MULTI)
    };
    let n = if trigger || op == "switch_on_next" {
      2
    } else if op == "flat_map" {
      1
    } else {
      rng.range(2, 3) as usize
    };
    // at least one input signals a terminal (for trigger operators the trigger's item forces one)
    let force = rng.below(n as u64) as usize;
    let inputs = gen_scripts(rng, n, maxlen, |rng, p| match rng.below(5) {
      0 | 1 => Some(Step::E(p as i64 + 1)),
      2 | 3 => Some(Step::C),
      _ => {
        if p == force {
          Some(Step::E(p as i64 + 1))
        } else {
          None
        }
      }
    });
    Json::obj(vec![
      ("op", Json::str(op)),
      ("inputs", Json::Arr(inputs)),
      ("take", Json::Int(if rng.below(5) == 0 { rng.range(1, 3) as i64 } else { -1 })),
      ("cb_probes", Json::Int(rng.below(3) as i64)),
      ("check_subscribed", Json::Bool(rng.below(2) == 0)),
      ("via_map", Json::Bool(rng.below(3) == 0)),
    ])
  }
  fn exec(&self, w: &Json, cfg: RunCfg) -> RunOut {
    let sc = match scenario_from_json(w) {
      Some(s) => s,
      None => return RunOut::invalid(),
    };
    let ran = run_scenario(&sc, cfg);
    let history = history_of(&ran);
    let violations = c19_oracle(&ran, &sc.op);
    let evs = ran.rec.events();
    let term = evs.iter().find(|r| r.ev.is_terminal());
    let reach = vec![
      ("c19-terminal-delivered", term.is_some() as u64),
      (
        "c19-emission-in-flight-at-terminal",
        term.map_or(false, |t| ran.logs.iter().any(|l| l.lock().unwrap().emits.iter().any(|e| e.seq_start < t.seq_out && e.seq_end > t.seq_in && e.task != t.task))) as u64,
      ),
    ];
    RunOut { fingerprint: fp_of(&history), res: ran.res, violations, invalid: false, reach, history }
  }
}

// ================================================================================================
// C19: subjects - next || complete/error || error on the four subject types

pub struct C19Subjects;

/// operator stages with state of their own between the subject and the observer
pub const STATEFUL_STAGES: &[&str] = &["window_with_count", "group_by", "scan", "buffer_with_count", "take_last", "skip_last", "distinct_until_changed", "reduce", "time_interval", "take", "skip", "materialize"];

#[derive(Clone)]
enum Subj {
  Plain(subjects::Subject<'static, Val>),
  Behavior(subjects::BehaviorSubject<'static, Val>),
  Replay(subjects::ReplaySubject<'static, Val>),
  Async(subjects::AsyncSubject<'static, Val>),
  /// no subject at all: an Observable::create source whose observers are driven directly
  Raw(Arc<Mutex<Vec<Observer<'static, Val>>>>),
}

impl Subj {
  fn make(kind: &str) -> Option<Subj> {
    Some(match kind {
      "raw" => Subj::Raw(Arc::new(Mutex::new(Vec::new()))),
      "subject" => Subj::Plain(subjects::Subject::new()),
      "behavior" => Subj::Behavior(subjects::BehaviorSubject::new(Val::Int(1))),
      "replay" => Subj::Replay(subjects::ReplaySubject::new()),
      "async" => Subj::Async(subjects::AsyncSubject::new()),
      _ => return None,
    })
  }
  fn step(&self, s: &Step) {
    match (self, s) {
      (Subj::Plain(x), Step::N(i)) => x.next(Val::Int(*i)),
      (Subj::Plain(x), Step::E(i)) => x.error(mk_err(*i)),
      (Subj::Plain(x), Step::C) => x.complete(),
      (Subj::Behavior(x), Step::N(i)) => x.next(Val::Int(*i)),
      (Subj::Behavior(x), Step::E(i)) => x.error(mk_err(*i)),
      (Subj::Behavior(x), Step::C) => x.complete(),
      (Subj::Replay(x), Step::N(i)) => x.next(Val::Int(*i)),
      (Subj::Replay(x), Step::E(i)) => x.error(mk_err(*i)),
      (Subj::Replay(x), Step::C) => x.complete(),
      (Subj::Async(x), Step::N(i)) => x.next(Val::Int(*i)),
      (Subj::Async(x), Step::E(i)) => x.error(mk_err(*i)),
      (Subj::Async(x), Step::C) => x.complete(),
      (Subj::Raw(os), st) => {
        let os: Vec<_> = os.lock().unwrap().clone();
        for o in os {
          match st {
            Step::N(i) => o.next(Val::Int(*i)),
            Step::E(i) => o.error(mk_err(*i)),
            Step::C => o.complete(),
          }
        }
      }
    }
  }
  fn observable(&self) -> Observable<'static, Val> {
    match self {
      Subj::Raw(os) => {
        let os = os.clone();
        Observable::create(move |s| os.lock().unwrap().push(s))
      }
      Subj::Plain(s) => s.observable(),
      Subj::Behavior(s) => s.observable(),
      Subj::Replay(s) => s.observable(),
      Subj::Async(s) => s.observable(),
    }
  }
}

impl Family for C19Subjects {
  fn name(&self) -> &'static str {
    "c19-racing-subject-calls"
  }
  fn threaded(&self) -> bool {
    true
  }
  fn gen(&self, rng: &mut Rng, tier: Tier) -> Json {
    let maxlen = if tier == Tier::Quick { 2 } else { 3 };
    let n = rng.range(2, 3) as usize;
    let force = rng.below(n as u64) as usize;
    let threads = gen_scripts(rng, n, maxlen, |rng, p| match rng.below(4) {
      0 => Some(Step::E(p as i64 + 1)),
      1 => Some(Step::C),
      _ => {
        if p == force {
          Some(if rng.below(2) == 0 { Step::C } else { Step::E(p as i64 + 1) })
        } else {
          None
        }
      }
    });
    Json::obj(vec![
      ("subject", Json::str(*rng.pick(&["subject", "subject", "behavior", "replay", "async", "raw", "raw"]))),
      ("threads", Json::Arr(threads)),
      // an observer may sit behind an operator with state and locks of its own (a=2): its item handler
      // and its terminal handler then run on different threads at once
      ("observers", Json::Arr((0..rng.range(1, 2)).map(|_| Json::str(if rng.below(3) == 0 { *rng.pick(STATEFUL_STAGES) } else { *rng.pick(&["direct", "direct", "map"]) })).collect())),
      ("cb_probes", Json::Int(rng.below(3) as i64)),
    ])
  }
  fn exec(&self, w: &Json, cfg: RunCfg) -> RunOut {
    let kind = w.s("subject");
    if Subj::make(&kind).is_none() {
      return RunOut::invalid();
    }
    let mut scripts = Vec::new();
    for s in w.a("threads") {
      match script_from_json(&s) {
        Some(x) if x.len() <= 6 => scripts.push(x),
        _ => return RunOut::invalid(),
      }
    }
    if scripts.is_empty() || scripts.len() > 3 {
      return RunOut::invalid();
    }
    let mut seen = std::collections::BTreeSet::new();
    for sc in &scripts {
      let nterm = sc.iter().filter(|s| !matches!(s, Step::N(_))).count();
      if nterm > 1 || (nterm == 1 && matches!(sc.last(), Some(Step::N(_)))) {
        return RunOut::invalid();
      }
      for s in sc {
        if let Step::N(i) = s {
          if !seen.insert(*i) || *i < 100 {
            return RunOut::invalid();
          }
        }
      }
    }
    let obs_kinds: Vec<String> = w.a("observers").iter().filter_map(|x| x.as_str().map(|s| s.to_string())).collect();
    if obs_kinds.is_empty() || obs_kinds.len() > 3 || obs_kinds.iter().any(|k| k != "direct" && k != "map" && !STATEFUL_STAGES.contains(&k.as_str())) {
      return RunOut::invalid();
    }
    let probes = w.i("cb_probes").clamp(0, 3) as u32;
    let recs: Vec<Recorder> = obs_kinds.iter().map(|_| Recorder::with_probes(probes)).collect();
    let log = Arc::new(Mutex::new(SrcLog::default()));
    let (recs2, log2, scripts2, kind2, ok2) = (recs.clone(), log.clone(), scripts.clone(), kind.clone(), obs_kinds.clone());
    let res = rt::run(cfg, move || {
      let sbj = Subj::make(&kind2).unwrap();
      let mut subs = Vec::new();
      for (r, k) in recs2.iter().zip(ok2.iter()) {
        let o = if k == "map" {
          sbj.observable().map(|x: Val| x)
        } else if k == "direct" {
          sbj.observable()
        } else {
          let ctx = crate::pipe::Ctx::new(vec![sbj.observable()]);
          let j = Json::obj(vec![("op", Json::str(k.as_str())), ("a", Json::Int(2)), ("in", Json::obj(vec![("src", Json::Int(0))]))]);
          match crate::pipe::build(&j, &ctx) {
            Some(o) => o,
            None => return,
          }
        };
        subs.push(r.subscribe(&o));
      }
      let mut hs = Vec::new();
      for (p, script) in scripts2.into_iter().enumerate() {
        let (sbj, log) = (sbj.clone(), log2.clone());
        hs.push(rt::spawn_harness(&format!("caller{}", p), move || {
          for st in &script {
            let seq_start = rt::seq();
            sbj.step(st);
            let seq_end = rt::seq();
            log.lock().unwrap().emits.push(Emit { sub: p, step: st.clone(), seq_start, seq_end, sub_before: true, sub_after: true, task: rt::task_id().unwrap_or(0), t: 0, t_start: 0 });
          }
        }));
      }
      for h in hs {
        let _ = h.join();
      }
      rt::quiesce();
    });
    let blame = match kind.as_str() {
      "subject" => "subject",
      "behavior" => "behavior_subject",
      "replay" => "replay_subject",
      "raw" => "observer",
      _ => "async_subject",
    };
    let mut violations = Vec::new();
    let mut history = Vec::new();
    for e in &log.lock().unwrap().emits {
      history.push(format!("{:>4}..{:<4} t{} caller{} calls {}", e.seq_start, e.seq_end, e.task, e.sub, e.step.show()));
    }
    for (i, r) in recs.iter().enumerate() {
      for e in r.events() {
        history.push(format!("{:>4}..{:<4} t{} observer{}({}) gets {}", e.seq_in, e.seq_out, e.task, i, obs_kinds[i], e.ev.show()));
      }
    }
    history.sort();
    for (i, r) in recs.iter().enumerate() {
      let ran = Ran { res: res.clone(), rec: r.clone(), rec_b: None, logs: vec![log.clone()], inner_logs: Arc::new(Mutex::new(Vec::new())) };
      let b = if obs_kinds[i] != "direct" { format!("{}+{}", blame, obs_kinds[i]) } else { blame.to_string() };
      violations.extend(c19_oracle(&ran, &b));
    }
    let reach = vec![("c19-subject-terminal-delivered", recs.iter().any(|r| r.events().iter().any(|e| e.ev.is_terminal())) as u64)];
    RunOut { fingerprint: fp_of(&history), res, violations, invalid: false, reach, history }
  }
}

// ================================================================================================
// C11: conservation when inputs emit from several threads and none fails

pub struct C11;

impl Family for C11 {
  fn name(&self) -> &'static str {
    "c11-combinators-threads"
  }
  fn threaded(&self) -> bool {
    true
  }
  fn gen(&self, rng: &mut Rng, tier: Tier) -> Json {
    let maxlen = if tier == Tier::Quick { 3 } else { 4 };
    let op = *rng.pick(OPS_MULTI);
    let n = if op == "flat_map" { rng.range(1, 2) as usize } else { rng.range(2, 3) as usize };
    let zip_len = rng.below(maxlen + 1);
    let mut inputs = gen_scripts(rng, n, maxlen, |_, _| Some(Step::C));
    if op == "zip" {
      // equal lengths: completion of zip with unequal inputs is not defined by the statement
      inputs = (0..n)
        .map(|p| {
          let mut s: Vec<Step> = (0..zip_len).map(|i| Step::N((p as i64 + 1) * 100 + i as i64)).collect();
          s.push(Step::C);
          script_to_json(&s)
        })
        .collect();
    }
    Json::obj(vec![
      ("op", Json::str(op)),
      ("inputs", Json::Arr(inputs)),
      ("take", Json::Int(if rng.below(3) == 0 { rng.range(0, 4) as i64 } else { -1 })),
      ("cb_probes", Json::Int(rng.below(3) as i64)),
      ("check_subscribed", Json::Bool(rng.below(2) == 0)),
      ("via_map", Json::Bool(rng.below(4) == 0)),
      // the same value subscribed once more after the first subscription has run out
      ("resubscribe", Json::Bool(rng.below(5) == 0)),
    ])
  }
  fn exec(&self, w: &Json, cfg: RunCfg) -> RunOut {
    let sc = match scenario_from_json(w) {
      Some(s) => s,
      None => return RunOut::invalid(),
    };
    if !OPS_MULTI.contains(&sc.op.as_str()) || sc.scripts.iter().any(|s| s.last() != Some(&Step::C)) {
      return RunOut::invalid(); // premise: every input completes, none fails
    }
    if sc.op == "zip" && sc.scripts.iter().any(|s| s.len() != sc.scripts[0].len()) {
      return RunOut::invalid();
    }
    let ran = run_scenario(&sc, cfg);
    let history = history_of(&ran);
    let blame = sc.op.as_str();
    let mut v = Vec::new();
    let evs = ran.rec.events();
    let show = evs.iter().map(|r| r.ev.show()).collect::<Vec<_>>().join(" ");
    if let Some(o) = outcome_violation(&ran.res, blame) {
      if !matches!(ran.res.outcome, rt::Outcome::Leak { .. }) {
        v.push(o);
      }
    }
    let mut judged: Vec<(&str, Recorder)> = vec![("", ran.rec.clone())];
    if let Some(b) = &ran.rec_b {
      judged.push(("second subscription of the same value: ", b.clone()));
    }
    for (label, rec_k) in judged {
      if !v.is_empty() {
        break;
      }
      let evs = rec_k.events();
      let show = format!("{}{}", label, evs.iter().map(|r| r.ev.show()).collect::<Vec<_>>().join(" "));
      let n_complete = evs.iter().filter(|r| r.ev == Ev::Complete).count();
      let n_error = evs.iter().filter(|r| matches!(r.ev, Ev::Error(_))).count();
      if n_complete > 1 || n_error > 1 || (n_complete + n_error) > 1 {
        v.push(Violation::new("terminal-twice", blame, format!("subscriber received {} complete and {} error notifications: {}", n_complete, n_error, show)));
      }
      if n_error > 0 {
        v.push(Violation::new("spurious-error", blame, format!("no input failed, yet the subscriber received an error: {}", show)));
      }
      if let Some(b) = contract_breach(&evs) {
        v.push(Violation::new("event-after-terminal", blame, b));
      }
      let items: Vec<Val> = evs.iter().filter_map(|r| if let Ev::Next(x) = &r.ev { Some(x.clone()) } else { None }).collect();
      let script_items = |s: &Vec<Step>| -> Vec<i64> { s.iter().filter_map(|x| if let Step::N(i) = x { Some(*i) } else { None }).collect() };
      if sc.take >= 0 {
        if items.len() as i64 > sc.take {
          v.push(Violation::new("take-exceeded", blame, format!("take({}) delivered {} items: {}", sc.take, items.len(), show)));
        }
      }
      // total the operator would deliver without take
      let all_inputs: Vec<Vec<i64>> = if sc.op == "flat_map" {
        let outer: Vec<i64> = sc.scripts.iter().flat_map(|s| script_items(s)).collect();
        outer.iter().map(|x| script_items(&inner_script(*x))).collect()
      } else {
        sc.scripts.iter().map(script_items).collect()
      };
      let total: usize = match sc.op.as_str() {
        "zip" => all_inputs.iter().map(|x| x.len()).min().unwrap_or(0),
        "amb" => usize::MAX, // decided below
        _ => all_inputs.iter().map(|x| x.len()).sum(),
      };
      let limited = sc.take >= 0 && (sc.take as usize) < total;
      // every input completes, so a take(n) below the total delivers exactly n items and then completes
      if limited && ["merge", "flat_map", "concat", "zip"].contains(&sc.op.as_str()) {
        if (items.len() as i64) < sc.take || n_complete != 1 || evs.last().map(|r| r.ev.clone()) != Some(Ev::Complete) {
          v.push(Violation::new("item-lost", blame, format!("under take({}) with {} items available the subscriber received {} item(s): {}", sc.take, total, items.len(), show)));
        }
      }
      let ints: Vec<i64> = items.iter().map(|x| x.int()).collect();
      match sc.op.as_str() {
        "merge" | "flat_map" | "concat" => {
          let mut seen = std::collections::BTreeSet::new();
          for i in &ints {
            if !seen.insert(*i) {
              v.push(Violation::new("item-duplicated", blame, format!("{} delivered twice: {}", i, show)));
            }
            if !all_inputs.iter().any(|s| s.contains(i)) {
              v.push(Violation::new("item-invented", blame, format!("{} was never emitted by an input: {}", i, show)));
            }
          }
          for (p, s) in all_inputs.iter().enumerate() {
            let got: Vec<i64> = ints.iter().filter(|i| s.contains(i)).copied().collect();
            let mut it = s.iter();
            let in_order = got.iter().all(|g| it.any(|x| x == g));
            if !in_order {
              v.push(Violation::new("item-reordered", blame, format!("input {} emitted {:?}, subscriber saw {:?}", p, s, got)));
            } else if !limited && got.len() != s.len() {
              v.push(Violation::new("item-lost", blame, format!("input {} emitted {:?}, subscriber saw only {:?} (all: {})", p, s, got, show)));
            } else if limited && !s.starts_with(&got) {
              v.push(Violation::new("item-lost", blame, format!("under take({}): input {} emitted {:?}, subscriber saw {:?} (not a prefix)", sc.take, p, s, got)));
            }
          }
          if sc.op == "concat" {
            // no interleaving across sources, in source order
            let order: Vec<usize> = ints.iter().filter_map(|i| all_inputs.iter().position(|s| s.contains(i))).collect();
            if order.windows(2).any(|w2| w2[0] > w2[1]) {
              v.push(Violation::new("concat-interleaved", blame, format!("concat delivered items of a later source before an earlier one finished: {}", show)));
            }
          }
        }
        "zip" => {
          for (k, it) in items.iter().enumerate() {
            let _ = k;
            if let Val::List(xs) = it {
              let t: Vec<i64> = xs.iter().map(|x| x.int()).collect();
              let idx = all_inputs[0].iter().position(|x| Some(x) == t.first());
              let want: Option<Vec<i64>> = idx.map(|i| all_inputs.iter().map(|s| s[i]).collect());
              if want.as_ref() != Some(&t) {
                v.push(Violation::new("zip-mispaired", blame, format!("zip emitted tuple {:?}, which does not pair the i-th items of every input ({:?})", t, all_inputs)));
              }
            }
          }
          let mut firsts: Vec<i64> = items.iter().filter_map(|x| if let Val::List(xs) = x { xs.first().map(|y| y.int()) } else { None }).collect();
          let n_before = firsts.len();
          firsts.sort();
          firsts.dedup();
          if firsts.len() != n_before {
            v.push(Violation::new("item-duplicated", blame, format!("zip emitted a tuple twice: {}", show)));
          }
          if !limited && firsts.len() != total {
            v.push(Violation::new("item-lost", blame, format!("zip over inputs {:?} emitted {} tuples instead of {}: {}", all_inputs, firsts.len(), total, show)));
          }
        }
        _ => {
          // amb: exactly one input gets through
          let owners: std::collections::BTreeSet<usize> = ints.iter().filter_map(|i| all_inputs.iter().position(|s| s.contains(i))).collect();
          if owners.len() > 1 {
            v.push(Violation::new("amb-two-winners", blame, format!("amb delivered items of inputs {:?}: {}", owners, show)));
          } else if let Some(wi) = owners.iter().next() {
            let s = &all_inputs[*wi];
            let lim = sc.take >= 0 && (sc.take as usize) < s.len();
            if (!lim && ints != *s) || (lim && !s.starts_with(&ints)) {
              v.push(Violation::new("item-lost", blame, format!("amb let input {} through, which emitted {:?}, but the subscriber saw {:?}", wi, s, ints)));
            }
          }
        }
      }
      // exactly one complete, after the last item
      let expect_complete = true;
      if expect_complete && n_complete == 0 && n_error == 0 {
        let class = if sc.op == "amb" { "amb-complete-lost" } else { "complete-lost" };
        v.push(Violation::new(class, blame, format!("every input completed but the subscriber never received complete: {}", show)));
      }
    }
    let reach = vec![
      ("c11-two-inputs-inside-sink-simultaneously", {
        let mut iv: Vec<(u64, u64, usize)> = Vec::new();
        for l in ran.logs.iter() {
          for e in &l.lock().unwrap().emits {
            iv.push((e.seq_start, e.seq_end, e.task));
          }
        }
        iv.iter().any(|a| iv.iter().any(|b| a.2 != b.2 && a.0 < b.1 && b.0 < a.1)) as u64
      }),
      ("c11-take-downstream", (sc.take >= 0) as u64),
    ];
    RunOut { fingerprint: fp_of(&history), res: ran.res, violations: v, invalid: false, reach, history }
  }
}

//! C16 - time-based sources and operators follow the (virtual) clock (DESIGN.md 5.16)
//! C15 - worker threads started for a subscription exit when it ends (DESIGN.md 5.15)

use crate::common::*;
use crate::json::Json;
use crate::rec::*;
use crate::val::*;
use another_rxrust::prelude::*;
use rxsim_rt as rt;
use rxsim_rt::prng::Rng;
use rxsim_rt::{Origin, RunCfg};
use std::sync::{Arc, Mutex};
use std::time::Duration;

const MS: u64 = 1_000_000;

fn ms(x: i64) -> Duration {
  Duration::from_millis(x.max(0) as u64)
}

// ================================================================================================
// C16

pub struct C16;

const C16_KINDS: &[&str] = &["interval", "interval-default-take", "timer", "delay", "timeout", "sample", "debounce", "delay-two-sources", "sample-two-triggers", "timeout-two-sources"];

impl Family for C16 {
  fn name(&self) -> &'static str {
    "c16-time"
  }
  fn threaded(&self) -> bool {
    true
  }
  fn gen(&self, rng: &mut Rng, tier: Tier) -> Json {
    let kind = *rng.pick(C16_KINDS);
    let d = *rng.pick(&[100i64, 250, 700]);
    let n = rng.range(1, if tier == Tier::Quick { 4 } else { 6 }) as i64;
    let trigger = *rng.pick(&[90i64, 160, 330]);
    // gaps from a grid that rarely ties with multiples of d; re-drawn until tie-free
    let mut gaps: Vec<i64>;
    loop {
      gaps = (0..n + 1)
        .map(|_| {
          let base = *rng.pick(&[d / 3, d / 2, d - 14, d + 14, 2 * d - 21, 7]);
          base.max(7) / 7 * 7 + 1 + rng.below(3) as i64
        })
        .collect();
      if !has_tie(kind, d, trigger, &gaps, n) {
        break;
      }
    }
    // slow consumer (timeout only): one item k >= 1 whose delivery takes longer than what is
    // left of the previous item's period; the following gap stays outside the ambiguous band
    let mut delays = vec![0i64; n as usize];
    if kind == "timeout" && n >= 2 && rng.below(2) == 0 {
      let k = rng.range(1, n as u64 - 1) as usize;
      if gaps[k] < d {
        let c = d - gaps[k] + 20;
        if c < d {
          delays[k] = c;
          gaps[k + 1] = if d - c > 15 && rng.below(2) == 0 { (d - c) / 2 } else { d + 15 + rng.below(50) as i64 };
        }
      }
    }
    Json::obj(vec![
      ("consumer_delays_ms", Json::arr(delays.iter(), |x| Json::Int(*x))),
      ("resubscribe", Json::Bool(rng.below(3) == 0)),
      ("kind", Json::str(kind)),
      ("d_ms", Json::Int(d)),
      ("n_items", Json::Int(n)),
      ("gaps_ms", Json::arr(gaps.iter(), |g| Json::Int(*g))),
      // second producer thread (kind "delay-two-sources"): its items reach delay while items of the first are in flight
      ("gaps_b_ms", Json::arr(gaps.iter().rev(), |g| Json::Int(*g / 2 + 3))),
      ("ending", Json::str(*rng.pick(&["complete", "complete", "error", "silence"]))),
      // unsubscribe instant for interval (never a multiple of d)
      ("unsub_ms", Json::Int(d * rng.range(0, 4) as i64 + *rng.pick(&[13i64, 51, 77]))),
      ("take", Json::Int(rng.range(1, 4) as i64)),
      ("trigger_ms", Json::Int(trigger)),
      ("jitter", Json::Bool(rng.below(3) == 0)),
      // delay kinds: the period in microseconds instead of d_ms (0 = use d_ms), also below one millisecond
      // interval kinds: virtual time the subscriber spends inside every tick's callback (0 = none)
      ("tick_work_ms", Json::Int(if kind.starts_with("interval") && rng.below(4) == 0 { *rng.pick(&[d / 3, d / 2 + 7]) } else { 0 })),
      ("delay_us", Json::Int(if (kind == "delay" || kind == "delay-two-sources") && rng.below(4) == 0 { *rng.pick(&[300i64, 800, 1500, 99_999]) } else { 0 })),
      // sample / debounce: virtual time the subscriber spends inside every item's callback (0 = none);
      // whoever else could hand the same item on meanwhile (a flush at completion, a second tick) does
      // timer / delay with a zero period: the event is due at once
      ("zero_period", Json::Bool((kind == "timer" || kind == "delay") && rng.below(8) == 0)),
      ("consumer_work_ms", Json::Int(if (kind == "sample" || kind == "debounce") && rng.below(3) == 0 { *rng.pick(&[d / 2 + 3, d + 9, 2 * d + 5]) } else { 0 })),
    ])
  }
  fn knobs(&self, rng: &mut Rng, w: &Json, _tier: Tier) -> Json {
    let mut k = default_knobs(rng, true);
    if let Json::Obj(m) = &mut k {
      m.insert("jitter_ns".into(), Json::Int(if w.b("jitter") { 30 * MS as i64 } else { 0 }));
      m.insert("step_budget".into(), Json::Int(60_000));
    }
    k
  }
  fn exec(&self, w: &Json, cfg: RunCfg) -> RunOut {
    let kind = w.s("kind");
    if !C16_KINDS.contains(&kind.as_str()) {
      return RunOut::invalid();
    }
    let d = w.i("d_ms");
    let n_items = w.i("n_items");
    let gaps: Vec<i64> = w.a("gaps_ms").iter().filter_map(|x| x.as_i64()).collect();
    if d < 10 || d > 2000 || n_items < 0 || n_items > 8 || gaps.len() as i64 != n_items + 1 || gaps.iter().any(|g| *g < 1 || *g > 5000) {
      return RunOut::invalid();
    }
    let ending = w.s("ending");
    if !["complete", "error", "silence"].contains(&ending.as_str()) {
      return RunOut::invalid();
    }
    let unsub_ms = w.i("unsub_ms");
    let take = w.i("take");
    let trigger_ms = w.i("trigger_ms");
    if unsub_ms < 1 || unsub_ms > 10_000 || unsub_ms % d == 0 || take < 1 || take > 8 || trigger_ms < 10 || trigger_ms > 2000 {
      return RunOut::invalid();
    }
    let jitter = cfg.jitter_max_ns > 0;
    let delay_us = if w.get("delay_us").is_some() { w.i("delay_us") } else { 0 };
    if delay_us < 0 || delay_us > 5_000_000 {
      return RunOut::invalid();
    }
    // the period of the delay kinds
    let zero_period = w.get("zero_period").is_some() && w.b("zero_period") && (kind == "timer" || kind == "delay");
    let delay_dur = if zero_period { Duration::ZERO } else if delay_us > 0 { Duration::from_micros(delay_us as u64) } else { ms(d) };
    let timer_dur = if zero_period { Duration::ZERO } else { ms(d) };
    let mut delays: Vec<i64> = w.a("consumer_delays_ms").iter().filter_map(|x| x.as_i64()).collect();
    delays.resize(n_items as usize, 0);
    if kind != "timeout" {
      delays.iter_mut().for_each(|x| *x = 0);
    }
    let tick_work = if w.get("tick_work_ms").is_some() && (kind == "interval" || kind == "interval-default-take") { w.i("tick_work_ms") } else { 0 };
    if tick_work < 0 || tick_work >= d {
      return RunOut::invalid();
    }
    let consumer_work = if w.get("consumer_work_ms").is_some() && (kind == "sample" || kind == "debounce") { w.i("consumer_work_ms") } else { 0 };
    if consumer_work < 0 || consumer_work > 5000 {
      return RunOut::invalid();
    }
    // a subscriber that works inside the callback: instants become lower bounds (like under jitter)
    let slow_ticks = tick_work > 0;
    for k in 0..delays.len() {
      // the ambiguous band: the successor arrives after d measured from the item's arrival but
      // before d measured from the end of its delivery - the statement does not say which
      if delays[k] < 0 || delays[k] >= d || (delays[k] > 0 && gaps[k + 1] >= d - delays[k] && gaps[k + 1] <= d) {
        return RunOut::invalid();
      }
    }
    let resub = w.b("resubscribe") && (kind == "interval" || kind == "timer" || kind == "interval-default-take");
    let (t_items, t_term) = instants(&gaps, n_items);
    let _ = &t_items;
    if !jitter && has_tie(&kind, d, trigger_ms, &gaps, n_items) {
      return RunOut::invalid();
    }
    let mut script: Vec<Step> = (0..n_items).map(|i| Step::N(100 + i)).collect();
    match ending.as_str() {
      "complete" => script.push(Step::C),
      "error" => script.push(Step::E(5)),
      _ => {}
    }
    let gaps_ns: Vec<u64> = gaps.iter().map(|g| *g as u64 * MS).collect();
    let mut gaps_b: Vec<i64> = w.a("gaps_b_ms").iter().filter_map(|x| x.as_i64()).collect();
    gaps_b.resize(gaps.len(), 11);
    if gaps_b.iter().any(|g| *g < 1 || *g > 5000) {
      return RunOut::invalid();
    }
    let gaps_b_ns: Vec<u64> = gaps_b.iter().map(|g| *g as u64 * MS).collect();
    let script_b: Vec<Step> = script.iter().map(|s| if let Step::N(i) = s { Step::N(*i + 100) } else { s.clone() }).collect();
    // kind "timeout-two-sources": A's item at gaps[0], delivered for d/2 + 9 ms; B's item arrives 5 ms into that
    let two_a_ns = gaps[0] as u64 * MS;
    let two_b_ns = two_a_ns + 5 * MS;
    let two_work_ns = (d as u64 / 2 + 9) * MS;
    let mut rec = Recorder::new();
    // two trigger threads and a subscriber that is still busy with a sample when the other ticks
    let rec_delays_two = kind == "sample-two-triggers";
    rec.next_delays_ns = Arc::new(if kind == "timeout-two-sources" {
      vec![two_work_ns, 0]
    } else if rec_delays_two {
      vec![trigger_ms as u64 * MS; 16]
    } else if slow_ticks { vec![tick_work as u64 * MS; 16] } else if consumer_work > 0 { vec![consumer_work as u64 * MS; 16] } else { delays.iter().map(|x| *x as u64 * MS).collect() });
    let rec_b = Recorder::new();
    let src_log = Arc::new(Mutex::new(SrcLog::default()));
    let marks: Arc<Mutex<Vec<(&'static str, u64, u64)>>> = Arc::new(Mutex::new(Vec::new())); // (what, seq, t)
    let (rec2, sl, mk, kind2, sc) = (rec.clone(), src_log.clone(), marks.clone(), kind.clone(), script.clone());
    let rec_b2 = rec_b.clone();
    let res = rt::run(cfg, move || {
      let handles = Arc::new(Mutex::new(Vec::new()));
      let src = || threaded_source("timed-source", sc.clone(), sl.clone(), false, gaps_ns.clone(), handles.clone());
      let mark = |what: &'static str| mk.lock().unwrap().push((what, rt::seq(), rt::now_ns()));
      match kind2.as_str() {
        "interval" => {
          let o = observables::interval(ms(d), schedulers::new_thread_scheduler()).map(|x| Val::Int(x as i64));
          mark("subscribe");
          let sub = rec2.subscribe(&o);
          rt::thread::sleep(ms(unsub_ms));
          mark("unsubscribe-call");
          sub.unsubscribe();
          mark("unsubscribed");
          if resub {
            // the same observable value, subscribed again later, starts from 0 again
            rt::thread::sleep(ms(2 * d + 3));
            mark("subscribe-b");
            let sub = rec_b2.subscribe(&o);
            rt::thread::sleep(ms(unsub_ms));
            sub.unsubscribe();
            mark("unsubscribed-b");
          }
        }
        "interval-default-take" => {
          let o = observables::interval(ms(d), schedulers::default_scheduler()).take(take as usize).map(|x| Val::Int(x as i64));
          mark("subscribe");
          let _sub = rec2.subscribe(&o);
          mark("subscribe-returned");
          if resub {
            mark("subscribe-b");
            let _sub = rec_b2.subscribe(&o);
          }
        }
        "timer" => {
          let o = observables::timer(timer_dur, schedulers::new_thread_scheduler()).map(|_| Val::Unit);
          mark("subscribe");
          let _sub = rec2.subscribe(&o);
          if resub {
            rt::thread::sleep(ms(d + 33));
            mark("subscribe-b");
            let _sub = rec_b2.subscribe(&o);
          }
        }
        "delay" => {
          mark("subscribe");
          let _sub = rec2.subscribe(&src().delay(delay_dur));
        }
        "delay-two-sources" => {
          // two producer threads into one delay: an item arrives while another one is being delayed
          let b = threaded_source("timed-source-b", script_b.clone(), sl.clone(), false, gaps_b_ns.clone(), handles.clone());
          mark("subscribe");
          let _sub = rec2.subscribe(&src().merge(&[b]).delay(delay_dur));
        }
        "timeout" => {
          mark("subscribe");
          let _sub = rec2.subscribe(&src().timeout(ms(d), schedulers::new_thread_scheduler()));
        }
        "timeout-two-sources" => {
          // producer A's only item is still being delivered (slow consumer) when producer B's arrives;
          // then silence: the TimedOut is owed all the same
          let a = threaded_source("timed-source", vec![Step::N(100)], sl.clone(), false, vec![two_a_ns], handles.clone());
          let b = threaded_source("timed-source-b", vec![Step::N(200)], sl.clone(), false, vec![two_b_ns], handles.clone());
          mark("subscribe");
          let sub = rec2.subscribe(&a.merge(&[b]).timeout(ms(d), schedulers::new_thread_scheduler()));
          rt::thread::sleep(Duration::from_nanos(two_b_ns + two_work_ns + 3 * d as u64 * MS));
          sub.unsubscribe();
        }
        "sample-two-triggers" => {
          mark("subscribe");
          let trig = observables::interval(ms(trigger_ms), schedulers::new_thread_scheduler()).merge(&[observables::interval(ms(trigger_ms + 17), schedulers::new_thread_scheduler())]);
          let sub = rec2.subscribe(&src().sample(trig));
          rt::thread::sleep(ms(t_term + 4 * trigger_ms + 1));
          sub.unsubscribe();
        }
        "sample" => {
          mark("subscribe");
          let sub = rec2.subscribe(&src().sample(observables::interval(ms(trigger_ms), schedulers::new_thread_scheduler())));
          if sc.last().map_or(true, |s| matches!(s, Step::N(_))) {
            rt::thread::sleep(ms(t_term + 3 * trigger_ms + 1));
            sub.unsubscribe();
          }
        }
        _ => {
          mark("subscribe");
          let sub = rec2.subscribe(&src().debounce(ms(d), schedulers::new_thread_scheduler()));
          if sc.last().map_or(true, |s| matches!(s, Step::N(_))) {
            rt::thread::sleep(ms(t_term + 3 * d + 1));
            sub.unsubscribe();
          }
        }
      }
      loop {
        let hs: Vec<_> = std::mem::take(&mut *handles.lock().unwrap());
        if hs.is_empty() {
          break;
        }
        for h in hs {
          let _ = h.join();
        }
      }
      rt::quiesce();
    });
    // ---- oracle
    let blame = match kind.as_str() {
      "interval-default-take" => "interval",
      "delay-two-sources" => "delay",
      "sample-two-triggers" => "sample",
      "timeout-two-sources" => "timeout",
      k => k,
    };
    let mut v = Vec::new();
    let evs = rec.events();
    let emits = src_log.lock().unwrap().emits.clone();
    let marks = marks.lock().unwrap().clone();
    let t_of = |what: &str| marks.iter().find(|m| m.0 == what).map(|m| m.2);
    let mut history = Vec::new();
    for e in &emits {
      history.push(format!("{:>4} t={:>7.1}ms source emits {}", e.seq_start, e.t_start as f64 / 1e6, e.step.show()));
    }
    for r in &evs {
      history.push(format!("{:>4} t={:>7.1}ms subscriber gets {}", r.seq_in, r.t as f64 / 1e6, r.ev.show()));
    }
    for m in &marks {
      history.push(format!("{:>4} t={:>7.1}ms {}", m.1, m.2 as f64 / 1e6, m.0));
    }
    history.sort();
    let cfg_name = if jitter { "jitter" } else { "exact" };
    match &res.outcome {
      rt::Outcome::Ok => {}
      rt::Outcome::Leak { .. } => {} // C15's business
      _ => v.push(outcome_violation(&res, blame).unwrap()),
    }
    if v.is_empty() {
      if let Some(b) = contract_breach(&evs) {
        v.push(Violation::new("event-after-terminal", blame, b));
      }
      let t0 = t_of("subscribe").unwrap_or(0);
      let dn = if zero_period { 0 } else if (kind == "delay" || kind == "delay-two-sources") && delay_us > 0 { delay_us as u64 * 1000 } else { d as u64 * MS };
      let shown = evs.iter().map(|r| format!("{}@{:.1}ms", r.ev.show(), r.t as f64 / 1e6)).collect::<Vec<_>>().join(" ");
      let at = |t: u64, want: u64| -> bool { if jitter { t >= want } else { t == want } };
      match kind.as_str() {
        "interval" | "interval-default-take" => {
          // lower bounds and gaps when the clock or the subscriber adds time
          let jitter = jitter || slow_ticks;
          let at = |t: u64, want: u64| -> bool { if jitter { t >= want } else { t == want } };
          {
            let ticks: Vec<u64> = evs.iter().filter(|r| matches!(r.ev, Ev::Next(_))).map(|r| r.t).collect();
            if ticks.windows(2).any(|p| p[1] < p[0] + dn) {
              v.push(Violation::new("wrong-instant", blame, format!("[{}] interval({}ms): two consecutive ticks less than one period apart: {}", cfg_name, d, shown)));
            }
          }
          let u_call = t_of("unsubscribe-call");
          let u_done = t_of("unsubscribed");
          for (i, r) in evs.iter().enumerate() {
            match &r.ev {
              Ev::Next(x) if x.int() == i as i64 => {
                let want = t0 + (i as u64 + 1) * dn;
                if !at(r.t, want) {
                  v.push(Violation::new("wrong-instant", blame, format!("[{}] interval({}ms) tick {} delivered at {:.1}ms, expected {}{:.1}ms: {}", cfg_name, d, i, r.t as f64 / 1e6, if jitter { ">= " } else { "" }, want as f64 / 1e6, shown)));
                }
                if let Some(u) = u_done {
                  if r.t > u {
                    v.push(Violation::new("tick-after-unsubscribe", blame, format!("[{}] tick {} delivered at {:.1}ms after unsubscribe returned at {:.1}ms", cfg_name, i, r.t as f64 / 1e6, u as f64 / 1e6)));
                  }
                }
              }
              Ev::Complete if kind == "interval-default-take" && i as i64 == take => {}
              _ => v.push(Violation::new("wrong-sequence", blame, format!("[{}] interval must emit 0,1,2,...: {}", cfg_name, shown))),
            }
          }
          if resub {
            let b = rec_b.events();
            let tb = t_of("subscribe-b").unwrap_or(0);
            let shown_b = b.iter().map(|r| format!("{}@{:.1}ms", r.ev.show(), r.t as f64 / 1e6)).collect::<Vec<_>>().join(" ");
            for (i, r) in b.iter().enumerate() {
              match &r.ev {
                Ev::Next(x) if x.int() == i as i64 => {
                  if !at(r.t, tb + (i as u64 + 1) * dn) {
                    v.push(Violation::new("wrong-instant", blame, format!("[{}] second subscription of the same interval({}ms) value: tick {} at {:.1}ms: {}", cfg_name, d, i, r.t as f64 / 1e6, shown_b)));
                  }
                }
                Ev::Complete if kind == "interval-default-take" && i as i64 == take => {}
                _ => v.push(Violation::new("wrong-sequence", blame, format!("[{}] second subscription of the same interval value must emit 0,1,2,... again: {}", cfg_name, shown_b))),
              }
            }
            let want_b = if kind == "interval" { if jitter { 0 } else { (unsub_ms as u64 * MS / dn) as usize } } else { take as usize };
            let got_b = b.iter().filter(|r| matches!(r.ev, Ev::Next(_))).count();
            if got_b < want_b {
              v.push(Violation::new("tick-lost", blame, format!("[{}] second subscription of the same interval value delivered {} ticks, expected {}: {}", cfg_name, got_b, want_b, shown_b)));
            }
          }
          if kind == "interval" {
            if let Some(u) = u_call {
              // every tick strictly before the unsubscribe call must have been delivered
              let want = if jitter { 0 } else { ((u - t0) / dn) as usize };
              let got = evs.iter().filter(|r| matches!(r.ev, Ev::Next(_))).count();
              if got < want || (!jitter && got > want) {
                v.push(Violation::new("tick-lost", blame, format!("[{}] interval({}ms) unsubscribed at {:.1}ms delivered {} ticks, expected {}: {}", cfg_name, d, (u - t0) as f64 / 1e6, got, want, shown)));
              }
            }
          } else {
            let got = evs.iter().filter(|r| matches!(r.ev, Ev::Next(_))).count() as i64;
            if got != take || evs.last().map(|r| r.ev.clone()) != Some(Ev::Complete) {
              v.push(Violation::new("wrong-sequence", blame, format!("[{}] interval(default scheduler).take({}) delivered {}", cfg_name, take, shown)));
            }
          }
        }
        "timer" if false => {}
        "timer" => {
          if resub {
            let b = rec_b.events();
            let tb = t_of("subscribe-b").unwrap_or(0);
            let okb = b.len() == 2 && b[0].ev == Ev::Next(Val::Unit) && b[1].ev == Ev::Complete && at(b[0].t, tb + dn);
            if !okb {
              v.push(Violation::new("wrong-instant", blame, format!("[{}] second subscription of the same timer({}ms) value: got {}", cfg_name, d, b.iter().map(|r| format!("{}@{:.1}ms", r.ev.show(), r.t as f64 / 1e6)).collect::<Vec<_>>().join(" "))));
            }
          }
          let ok = evs.len() == 2 && evs[0].ev == Ev::Next(Val::Unit) && evs[1].ev == Ev::Complete && at(evs[0].t, t0 + dn);
          if !ok {
            v.push(Violation::new("wrong-instant", blame, format!("[{}] timer({}ms) must emit once at {}ms and complete; got {}", cfg_name, d, d, shown)));
          }
        }
        "delay" => {
          // each item exactly d after the source's next call started, order preserved
          let src_items: Vec<&Emit> = emits.iter().filter(|e| matches!(e.step, Step::N(_))).collect();
          let got: Vec<&Rec> = evs.iter().filter(|r| matches!(r.ev, Ev::Next(_))).collect();
          if got.len() != src_items.len() {
            v.push(Violation::new("item-lost", blame, format!("[{}] delay: source emitted {} items, subscriber got {}: {}", cfg_name, src_items.len(), got.len(), shown)));
          } else {
            for (e, r) in src_items.iter().zip(got.iter()) {
              let same = matches!((&e.step, &r.ev), (Step::N(a), Ev::Next(b)) if *a == b.int());
              if !same {
                v.push(Violation::new("reordered", blame, format!("[{}] delay changed the order: {}", cfg_name, shown)));
                break;
              }
              if !at(r.t, e.t_start + dn) {
                v.push(Violation::new("wrong-instant", blame, format!("[{}] delay({}ms): item {} received at {:.1}ms was handed on at {:.1}ms", cfg_name, d, e.step.show(), e.t_start as f64 / 1e6, r.t as f64 / 1e6)));
              }
            }
          }
          expect_terminal(&script, &evs, blame, &mut v, &shown);
        }
        "delay-two-sources" => {
          // every item, whichever thread brought it, is handed on d after delay received it;
          // per producer the order is kept
          let src_items: Vec<&Emit> = emits.iter().filter(|e| matches!(e.step, Step::N(_))).collect();
          let got: Vec<&Rec> = evs.iter().filter(|r| matches!(r.ev, Ev::Next(_))).collect();
          let ended_by_error = matches!(script.last(), Some(Step::E(_)));
          for e in &src_items {
            let i = if let Step::N(i) = &e.step { *i } else { 0 };
            match got.iter().find(|r| r.ev == Ev::Next(Val::Int(i))) {
              Some(r) => {
                if !at(r.t, e.t_start + dn) {
                  v.push(Violation::new("wrong-instant", "delay", format!("[{}] delay({}ms) fed by two threads: item {} received at {:.1}ms was handed on at {:.1}ms: {}", cfg_name, d, e.step.show(), e.t_start as f64 / 1e6, r.t as f64 / 1e6, shown)));
                }
              }
              // after the error of one producer the other one's items in flight are dropped legitimately
              None if ended_by_error => {}
              None => v.push(Violation::new("item-lost", "delay", format!("[{}] delay fed by two threads: item {} never handed on: {}", cfg_name, e.step.show(), shown))),
            }
          }
          for lo in [100i64, 200] {
            let mine: Vec<i64> = got.iter().map(|r| r.ev.clone()).filter_map(|e| if let Ev::Next(x) = e { Some(x.int()) } else { None }).filter(|x| *x >= lo && *x < lo + 100).collect();
            if mine.windows(2).any(|p| p[0] >= p[1]) {
              v.push(Violation::new("reordered", "delay", format!("[{}] delay changed the order of one producer's items: {}", cfg_name, shown)));
            }
          }
        }
        "timeout-two-sources" => {
          // both items, then exactly one TimedOut: not before d after the last item arrived, not
          // later than d after the last delivery returned (the statement does not say which)
          let items: Vec<&Rec> = evs.iter().filter(|r| matches!(r.ev, Ev::Next(_))).collect();
          let last_arrival = emits.iter().filter(|e| matches!(e.step, Step::N(_))).map(|e| e.t_start).max().unwrap_or(0);
          let last_return = emits.iter().filter(|e| matches!(e.step, Step::N(_))).map(|e| e.t).max().unwrap_or(0);
          let errs: Vec<&Rec> = evs.iter().filter(|r| r.ev.is_terminal()).collect();
          if items.len() != 2 {
            v.push(Violation::new("item-lost", blame, format!("[{}] timeout fed by two threads: both items must pass, got {}", cfg_name, shown)));
          } else if errs.len() != 1 || errs[0].ev != Ev::Error(-2) {
            v.push(Violation::new("missing-timeout", blame, format!("[{}] timeout({}ms) fed by two threads, the second item arriving while the first is being delivered, then silence: exactly one TimedOut is owed, got {}", cfg_name, d, shown)));
          } else {
            let (lo, hi) = (last_arrival + dn, last_return + dn);
            let ok = if jitter { errs[0].t >= lo } else { errs[0].t >= lo && errs[0].t <= hi };
            if !ok {
              v.push(Violation::new("wrong-instant", blame, format!("[{}] timeout({}ms) fed by two threads: TimedOut delivered at {:.1}ms, expected within [{:.1}, {:.1}]ms: {}", cfg_name, d, errs[0].t as f64 / 1e6, lo as f64 / 1e6, hi as f64 / 1e6, shown)));
            }
          }
        }
        "timeout" => {
          // walk the source's actual emission instants. For item k: lo = arrival + d,
          // hi = end of its delivery + d (they differ only under a slow consumer).
          let mut expected: Vec<(Ev, Option<(u64, u64)>)> = Vec::new();
          let mut last: Option<(u64, u64)> = None;
          let mut closed = false;
          for e in &emits {
            if let Some((lo, hi)) = last {
              if e.t_start > hi {
                expected.push((Ev::Error(-2), Some((lo, hi))));
                closed = true;
                break;
              }
            }
            match &e.step {
              Step::N(i) => {
                expected.push((Ev::Next(Val::Int(*i)), None));
                last = Some((e.t_start + dn, e.t + dn));
              }
              Step::E(i) => {
                expected.push((Ev::Error(*i), None));
                closed = true;
                break;
              }
              Step::C => {
                expected.push((Ev::Complete, None));
                closed = true;
                break;
              }
            }
          }
          if !closed {
            if let Some(w2) = last {
              expected.push((Ev::Error(-2), Some(w2)));
            }
          }
          let got: Vec<Ev> = evs.iter().map(|r| r.ev.clone()).collect();
          let want: Vec<Ev> = expected.iter().map(|x| x.0.clone()).collect();
          let want_s = want.iter().map(|e| e.show()).collect::<Vec<_>>().join(" ");
          if got != want {
            let got_to = got.iter().any(|e| *e == Ev::Error(-2));
            let want_to = want.iter().any(|e| *e == Ev::Error(-2));
            let class = if got_to && !want_to {
              "spurious-timeout"
            } else if want_to && !got_to {
              "missing-timeout"
            } else {
              "wrong-sequence"
            };
            // under jitter a late timer can legitimately be overtaken by the next item, so only
            // a timeout that fires although no gap exceeded d is judged there
            if !jitter || class == "spurious-timeout" {
              v.push(Violation::new(class, blame, format!("[{}] timeout({}ms): expected [{}], got {}", cfg_name, d, want_s, shown)));
            }
          } else {
            for ((ev, win), r) in expected.iter().zip(evs.iter()) {
              if let (Ev::Error(-2), Some((lo, hi))) = (ev, win) {
                let ok = if jitter { r.t >= *lo } else { r.t >= *lo && r.t <= *hi };
                if !ok {
                  v.push(Violation::new("wrong-instant", blame, format!("[{}] timeout({}ms): TimedOut delivered at {:.1}ms, expected within [{:.1}, {:.1}]ms", cfg_name, d, r.t as f64 / 1e6, *lo as f64 / 1e6, *hi as f64 / 1e6)));
                }
              }
            }
          }
        }
        _ => {
          // sample / debounce: delivered items are a subsequence of the source's, in order, none twice
          let src_items: Vec<i64> = emits.iter().filter_map(|e| if let Step::N(i) = &e.step { Some(*i) } else { None }).collect();
          let got: Vec<i64> = evs.iter().filter_map(|r| if let Ev::Next(x) = &r.ev { Some(x.int()) } else { None }).collect();
          let mut it = src_items.iter();
          let subseq = got.iter().all(|g| it.any(|x| x == g));
          if !subseq {
            v.push(Violation::new("not-a-subsequence", blame, format!("[{}] {}: source emitted {:?}, subscriber got {:?} (must be a subsequence in order, none twice)", cfg_name, kind, src_items, got)));
          }
          // every delivered item was emitted before it was delivered
          for r in &evs {
            if let Ev::Next(x) = &r.ev {
              if let Some(e) = emits.iter().find(|e| e.step == Step::N(x.int())) {
                if r.t < e.t_start {
                  v.push(Violation::new("wrong-instant", blame, format!("{} delivered at {:.1}ms before it was emitted at {:.1}ms", x.int(), r.t as f64 / 1e6, e.t_start as f64 / 1e6)));
                }
              }
            }
          }
        }
      }
    }
    let mut fp = 0u64;
    for h in &history {
      fp = fp.wrapping_mul(0x100000001B3) ^ fnv(h.split_whitespace().skip(1).collect::<Vec<_>>().join(" ").as_str());
    }
    let reach = vec![
      ("c16-exact-config", (!jitter) as u64),
      ("c16-jitter-config", jitter as u64),
      ("c16-timeout-fired", evs.iter().any(|r| r.ev == Ev::Error(-2)) as u64),
      ("c16-timeout-armed-and-cancelled", (kind == "timeout" && evs.iter().filter(|r| matches!(r.ev, Ev::Next(_))).count() > 1) as u64),
    ];
    RunOut { res, violations: v, fingerprint: fp, invalid: false, reach, history }
  }
}

fn instants(gaps: &[i64], n_items: i64) -> (Vec<i64>, i64) {
  let mut t_items: Vec<i64> = Vec::new();
  let mut acc = 0;
  for g in gaps.iter().take(n_items as usize) {
    acc += g;
    t_items.push(acc);
  }
  (t_items, acc + gaps[n_items as usize])
}

/// no two oracle-relevant instants may coincide in the exact configuration
fn has_tie(kind: &str, d: i64, trigger_ms: i64, gaps: &[i64], n_items: i64) -> bool {
  let (t_items, t_term) = instants(gaps, n_items);
  match kind {
    "timeout" => {
      let mut prev: Option<i64> = None;
      for t in t_items.iter().chain(std::iter::once(&t_term)) {
        if let Some(p) = prev {
          if *t == p + d {
            return true;
          }
        }
        prev = Some(*t);
      }
      false
    }
    "sample" | "debounce" => {
      let p = if kind == "sample" { trigger_ms } else { d };
      t_items.iter().chain(std::iter::once(&t_term)).any(|t| t % p == 0)
    }
    _ => false,
  }
}

fn expect_terminal(script: &[Step], evs: &[Rec], blame: &str, v: &mut Vec<Violation>, shown: &str) {
  let want = match script.last() {
    Some(Step::C) => Some(Ev::Complete),
    Some(Step::E(i)) => Some(Ev::Error(*i)),
    _ => None,
  };
  let got = evs.iter().find(|r| r.ev.is_terminal()).map(|r| r.ev.clone());
  if want != got {
    v.push(Violation::new("wrong-terminal", blame, format!("source terminal {:?}, subscriber terminal {:?}: {}", want.map(|e| e.show()), got.map(|e| e.show()), shown)));
  }
}

// ================================================================================================
// C15

pub struct C15;

const C15_CONSTRUCTS: &[&str] = &[
  "interval",
  "timer",
  "observe_on",
  "subscribe_on",
  "debounce",
  "timeout",
  "interval+observe_on",
  "observe_on+subscribe_on",
  "interval+timeout",
  "timer+flat_map-interval",
  "observe_on+observe_on",
  "interval+ref_count",
  "sample-by-interval",
  "subscribe_on+interval",
  "interval+delay",
  "interval-merge-interval",
  // cold sources that deliver everything (terminal included) synchronously inside subscribe
  "debounce-cold",
  "timeout-cold",
  "observe_on-cold",
  "delay-cold",
  "sample-cold-by-interval",
  // nestings
  "interval-switch_on_next-interval",
  "flat_map-observe_on",
  "flat_map-subscribe_on",
  "timer-concat-timer",
  "interval-zip-interval",
  "interval-combine_latest-interval",
  "observe_on-cold-error-retry",
  "interval-window-flat_map",
  // two producer threads inside timeout at once (a timer armed by one may be replaced by the other's)
  "timeout-two-sources",
  // triggers that own a thread and go on after they fired
  "skip_until-by-interval",
  "skip_until-by-observe_on",
  "take_until-by-interval",
  // a timer with nothing to wait for
  "timer-zero",
  // the source is a Subject and the subscriber - running on the operator's worker thread - pushes
  // the next item into it from inside its callback (100 -> 101 -> 102)
  "debounce-feedback",
  "sample-feedback",
  "timeout-feedback",
  "observe_on-feedback",
];
// "unsubscribe-in-scheduler-factory": the scheduler factory of an inner stream (flat_map nestings)
// unsubscribes the whole subscription - the inner stream's observer dies exactly while it is being set up
// "stop-in-scheduler-factory": the pipeline ends in take_until(stop), and a scheduler factory fires
// `stop` - for a top-level construct that is while the subscription is still being set up
const C15_ENDINGS: &[&str] = &["terminal", "unsubscribe", "take", "first", "take_until-timer", "amb-timer", "retry", "unsubscribe-early", "unsubscribe-probes", "unsubscribe-in-scheduler-factory", "stop-in-scheduler-factory"];

impl Family for C15 {
  fn name(&self) -> &'static str {
    "c15-worker-threads-exit"
  }
  fn threaded(&self) -> bool {
    true
  }
  fn gen(&self, rng: &mut Rng, _tier: Tier) -> Json {
    let d = *rng.pick(&[100i64, 250]);
    Json::obj(vec![
      ("construct", Json::str(*rng.pick(C15_CONSTRUCTS))),
      ("ending", Json::str(*rng.pick(C15_ENDINGS))),
      ("d_ms", Json::Int(d)),
      ("n_items", Json::Int(rng.range(0, 3) as i64)),
      ("gap_ms", Json::Int(*rng.pick(&[31i64, 71, 141, 301]))),
      ("source_ending", Json::str(*rng.pick(&["complete", "complete", "error"]))),
      ("take", Json::Int(rng.range(1, 3) as i64)),
      ("unsub_ms", Json::Int(d * rng.range(0, 3) as i64 + *rng.pick(&[13i64, 57]))),
      ("repeats", Json::Int(if rng.below(6) == 0 { rng.range(2, 5) as i64 } else { 1 })),
      ("jitter", Json::Bool(rng.below(4) == 0)),
      // for the ending "unsubscribe-probes": scheduling points the caller lets pass before it unsubscribes
      ("unsub_probes", Json::Int(rng.below(25) as i64)),
      // for the ending "unsubscribe-in-scheduler-factory": which call of the inner factory does it
      ("factory_call", Json::Int(rng.below(3) as i64)),
      // constructs behind ref_count: one more subscriber whose pipeline has ended before the shared
      // stream is reached (just(x).merge(shared).take(1)); it must not count as a subscriber
      ("dead_on_arrival_subscriber", Json::Bool(rng.below(2) == 0)),
    ])
  }
  fn knobs(&self, rng: &mut Rng, w: &Json, _tier: Tier) -> Json {
    let mut k = default_knobs(rng, true);
    if let Json::Obj(m) = &mut k {
      m.insert("jitter_ns".into(), Json::Int(if w.b("jitter") { 20 * MS as i64 } else { 0 }));
      m.insert("step_budget".into(), Json::Int(80_000));
    }
    k
  }
  fn exec(&self, w: &Json, cfg: RunCfg) -> RunOut {
    let construct = w.s("construct");
    let ending = w.s("ending");
    if !C15_CONSTRUCTS.contains(&construct.as_str()) || !C15_ENDINGS.contains(&ending.as_str()) {
      return RunOut::invalid();
    }
    let d = w.i("d_ms");
    let n_items = w.i("n_items");
    let gap = w.i("gap_ms");
    let take = w.i("take");
    let unsub_ms = w.i("unsub_ms");
    let repeats = w.i("repeats");
    let unsub_probes = w.i("unsub_probes").clamp(0, 60);
    let src_end = w.s("source_ending");
    if d < 10 || d > 1000 || n_items < 0 || n_items > 6 || gap < 1 || gap > 2000 || take < 1 || take > 6 || unsub_ms < 1 || unsub_ms > 5000 || repeats < 1 || repeats > 8 {
      return RunOut::invalid();
    }
    if !["complete", "error"].contains(&src_end.as_str()) {
      return RunOut::invalid();
    }
    let endless = construct.starts_with("interval") || construct == "subscribe_on+interval";
    // an endless source cannot end by its own terminal: the ending then is an unsubscribe
    let ending = if endless && ending == "terminal" { "unsubscribe".to_string() } else { ending };
    // only nestings create schedulers after subscribe returned; elsewhere this ending is a plain unsubscribe
    let nested = ["flat_map-observe_on", "flat_map-subscribe_on", "timer+flat_map-interval"].contains(&construct.as_str());
    let ending = if ending == "unsubscribe-in-scheduler-factory" && !nested { "unsubscribe".to_string() } else { ending };
    let dead_sub = w.get("dead_on_arrival_subscriber").is_some() && w.b("dead_on_arrival_subscriber");
    let factory_call = if w.get("factory_call").is_some() { w.i("factory_call").clamp(0, 8) } else { 0 };
    // (end instant, tasks at that instant)
    let ends: Arc<Mutex<Vec<(u64, Vec<rt::TaskInfo>)>>> = Arc::new(Mutex::new(Vec::new()));
    let recs: Arc<Mutex<Vec<Recorder>>> = Arc::new(Mutex::new(Vec::new()));
    let (ends2, recs2, construct2, ending2) = (ends.clone(), recs.clone(), construct.clone(), ending.clone());
    let final_tasks: Arc<Mutex<Vec<rt::TaskInfo>>> = Arc::new(Mutex::new(Vec::new()));
    let ft2 = final_tasks.clone();
    let res = rt::run(cfg, move || {
      for _rep in 0..repeats {
        let handles = Arc::new(Mutex::new(Vec::new()));
        let attempts = Arc::new(Mutex::new(0u32));
        let mut script: Vec<Step> = (0..n_items).map(|i| Step::N(100 + i)).collect();
        script.push(if src_end == "error" { Step::E(3) } else { Step::C });
        let gaps: Vec<u64> = (0..script.len()).map(|_| gap as u64 * MS).collect();
        let slog = Arc::new(Mutex::new(SrcLog::default()));
        let timed_src = {
          let (script, gaps, slog, handles) = (script.clone(), gaps.clone(), slog.clone(), handles.clone());
          move || threaded_source("timed-source", script.clone(), slog.clone(), true, gaps.clone(), handles.clone())
        };
        // factory for the schedulers (hooked: some endings act from inside it)
        let outer_sub: Arc<Mutex<Option<Subscription<'static>>>> = Arc::new(Mutex::new(None));
        let factory_hook: Arc<Mutex<Option<Arc<dyn Fn() + Send + Sync>>>> = Arc::new(Mutex::new(None));
        let inner_sched = {
          let (calls, fh) = (Arc::new(Mutex::new(0i64)), factory_hook.clone());
          let in_factory = ending2 == "unsubscribe-in-scheduler-factory" || ending2 == "stop-in-scheduler-factory";
          move || {
            let k = {
              let mut c = calls.lock().unwrap();
              *c += 1;
              *c - 1
            };
            if in_factory && k == factory_call {
              let h = fh.lock().unwrap().clone();
              if let Some(h) = h {
                h();
              }
            }
            schedulers::new_thread_scheduler()()
          }
        };
        let sched = {
          let f = inner_sched.clone();
          move || f.clone()
        };
        let stop = HotSource::new();
        if ending2 == "stop-in-scheduler-factory" {
          let s2 = stop.clone();
          *factory_hook.lock().unwrap() = Some(Arc::new(move || s2.step_all(&Step::N(1))));
        }
        let iv = || observables::interval(ms(d), sched()).map(|x| Val::Int(x as i64));
        // feedback constructs: a harness task pushes the first item and, much later, the terminal
        let fb_subject = subjects::Subject::<Val>::new();
        let feedback = construct2.ends_with("-feedback");
        let feedback_src = {
          let (fb, handles, err) = (fb_subject.clone(), handles.clone(), src_end == "error");
          move || {
            let fb2 = fb.clone();
            let h = rt::spawn_harness("feedback-source", move || {
              rt::thread::sleep(ms(gap));
              fb2.next(Val::Int(100));
              rt::thread::sleep(ms(4 * d + gap + 11));
              if err {
                fb2.error(mk_err(3));
              } else {
                fb2.complete();
              }
            });
            handles.lock().unwrap().push(h);
            fb.observable()
          }
        };
        let mut o: Observable<'static, Val> = match construct2.as_str() {
          "interval" => iv(),
          "timer" => observables::timer(ms(d), sched()).map(|_| Val::Unit),
          "observe_on" => timed_src().observe_on(sched()),
          "subscribe_on" => cold_source(vec![script.clone()], slog.clone(), None, true).subscribe_on(sched()),
          "debounce" => timed_src().debounce(ms(d), sched()),
          "timeout" => timed_src().timeout(ms(d), sched()),
          "interval+observe_on" => iv().observe_on(sched()),
          "observe_on+subscribe_on" => cold_source(vec![script.clone()], slog.clone(), None, true).subscribe_on(sched()).observe_on(sched()),
          "interval+timeout" => iv().timeout(ms(2 * d + 7), sched()),
          "timer+flat_map-interval" => {
            let f = inner_sched.clone();
            observables::timer(ms(d), sched()).flat_map(move |_| observables::interval(ms(d), f.clone()).map(|x| Val::Int(x as i64)))
          }
          "observe_on+observe_on" => timed_src().observe_on(sched()).observe_on(sched()),
          "interval+ref_count" => {
            let shared = iv().ref_count().observable();
            if dead_sub {
              // a subscriber whose pipeline ends before the shared stream is reached
              let extra = observables::just(Val::Int(-5)).merge(&[shared.clone()]).take(1);
              let _ = extra.subscribe(|_| {}, |_| {}, || {});
            }
            shared
          }
          "sample-by-interval" => timed_src().sample(observables::interval(ms(d), sched())),
          "subscribe_on+interval" => iv().subscribe_on(sched()),
          "interval+delay" => iv().delay(ms(7)),
          "interval-switch_on_next-interval" => iv().switch_on_next(observables::interval(ms(d + 30), sched()).map(|x| Val::Int(1000 + x as i64))),
          "flat_map-observe_on" => {
            let f = inner_sched.clone();
            timed_src().flat_map(move |x: Val| observables::just(x).observe_on(f.clone()))
          }
          "flat_map-subscribe_on" => {
            let f = inner_sched.clone();
            timed_src().flat_map(move |x: Val| observables::just(x).subscribe_on(f.clone()))
          }
          "timer-concat-timer" => observables::timer(ms(d), sched()).map(|_| Val::Int(1)).concat(&[observables::timer(ms(d + 30), sched()).map(|_| Val::Int(2))]),
          "interval-zip-interval" => iv().zip(&[observables::interval(ms(d + 30), sched()).map(|x| Val::Int(1000 + x as i64))]).map(Val::List),
          "interval-combine_latest-interval" => iv().combine_latest(&[observables::interval(ms(d + 30), sched()).map(|x| Val::Int(1000 + x as i64))], Val::List),
          "observe_on-cold-error-retry" => {
            // every attempt of the retry creates a worker; each must go when its attempt failed
            let mut sc = script.clone();
            if let Some(l) = sc.last_mut() {
              *l = Step::E(3);
            }
            cold_source(vec![sc, script.clone()], slog.clone(), None, true).observe_on(sched()).retry(1)
          }
          "interval-window-flat_map" => iv().window_with_count(2).flat_map(|w: Observable<'static, Val>| w),
          "timeout-two-sources" => {
            let b = threaded_source("timed-source-b", script.iter().map(|s| if let Step::N(i) = s { Step::N(*i + 50) } else { s.clone() }).collect(), slog.clone(), true, gaps.clone(), handles.clone());
            // same gaps on purpose: both producers wake at the same virtual instant and are inside timeout together
            timed_src().merge(&[b]).timeout(ms(d), sched())
          }
          "skip_until-by-interval" => timed_src().skip_until(observables::interval(ms(d), sched())),
          "skip_until-by-observe_on" => {
            let trig = threaded_source("trigger-source", vec![Step::N(1), Step::N(2)], slog.clone(), true, vec![gap as u64 * MS / 2 + MS, gap as u64 * MS], handles.clone());
            timed_src().skip_until(trig.observe_on(sched()))
          }
          "take_until-by-interval" => timed_src().take_until(observables::interval(ms(d), sched())),
          "timer-zero" => observables::timer(Duration::ZERO, sched()).map(|_| Val::Unit),
          "debounce-feedback" => feedback_src().debounce(ms(d), sched()),
          "sample-feedback" => feedback_src().sample(observables::interval(ms(d), sched())),
          "timeout-feedback" => feedback_src().timeout(ms(5 * d), sched()),
          "observe_on-feedback" => feedback_src().observe_on(sched()),
          "debounce-cold" => cold_source(vec![script.clone()], slog.clone(), None, true).debounce(ms(d), sched()),
          "timeout-cold" => cold_source(vec![script.clone()], slog.clone(), None, true).timeout(ms(d), sched()),
          "observe_on-cold" => cold_source(vec![script.clone()], slog.clone(), None, true).observe_on(sched()),
          "delay-cold" => cold_source(vec![script.clone()], slog.clone(), None, true).delay(ms(d)),
          "sample-cold-by-interval" => cold_source(vec![script.clone()], slog.clone(), None, true).sample(observables::interval(ms(d), sched())),
          _ => iv().merge(&[observables::interval(ms(d + 30), sched()).map(|x| Val::Int(1000 + x as i64))]),
        };
        let endless = construct2.starts_with("interval") || construct2 == "timer+flat_map-interval" || construct2 == "subscribe_on+interval";
        let mut need_unsub: Option<i64> = None;
        match ending2.as_str() {
          "terminal" => {
            if endless {
              need_unsub = Some(unsub_ms);
            }
          }
          "unsubscribe" => need_unsub = Some(unsub_ms),
          "unsubscribe-early" => need_unsub = Some(0),
          "unsubscribe-probes" => need_unsub = Some(-1),
          // the factory does it; if no inner stream is ever created the horizon cut ends it
          "unsubscribe-in-scheduler-factory" => {}
          "stop-in-scheduler-factory" => o = o.take_until(stop.observable()),
          "take" => o = o.take(take as usize),
          "first" => o = o.first(),
          "take_until-timer" => o = o.take_until(observables::timer(ms(unsub_ms), sched())),
          "amb-timer" => o = o.amb(&[observables::timer(ms(unsub_ms), sched()).map(|_| Val::Int(-1))]),
          _ => {
            // retry: the first attempt fails right away, the second one is the construct itself
            let (a2, o2) = (attempts.clone(), o.clone());
            o = observables::defer(move || {
              let mut a = a2.lock().unwrap();
              *a += 1;
              if *a == 1 {
                observables::error(mk_err(9))
              } else {
                o2.clone()
              }
            })
            .retry(2);
            if endless {
              need_unsub = Some(unsub_ms);
            }
          }
        }
        // an ending that an endless/never-completing pipeline cannot reach needs a final unsubscribe
        let rec = Recorder::new();
        recs2.lock().unwrap().push(rec.clone());
        let ended = Arc::new(Mutex::new(false));
        let (e2, ends3) = (ended.clone(), ends2.clone());
        let (l1, l2, l3) = (rec.log.clone(), rec.log.clone(), rec.log.clone());
        let mark_end = move || {
          let mut e = e2.lock().unwrap();
          if !*e {
            *e = true;
            ends3.lock().unwrap().push((rt::now_ns(), rt::tasks()));
          }
        };
        let (m1, m2) = (mark_end.clone(), mark_end.clone());
        let fb_next = if feedback { Some(fb_subject.clone()) } else { None };
        let sub = o.subscribe(
          move |x: Val| {
            let i = if let Val::Int(i) = &x { Some(*i) } else { None };
            l1.lock().unwrap().push(Rec { seq_in: rt::seq(), seq_out: 0, task: rt::task_id().unwrap_or(0), t: rt::now_ns(), ev: Ev::Next(x) });
            if let (Some(fb), Some(i)) = (&fb_next, i) {
              if (100..102).contains(&i) {
                fb.next(Val::Int(i + 1));
              }
            }
          },
          move |e| {
            l2.lock().unwrap().push(Rec { seq_in: rt::seq(), seq_out: 0, task: rt::task_id().unwrap_or(0), t: rt::now_ns(), ev: Ev::Error(err_id(&e)) });
            m1();
          },
          move || {
            l3.lock().unwrap().push(Rec { seq_in: rt::seq(), seq_out: 0, task: rt::task_id().unwrap_or(0), t: rt::now_ns(), ev: Ev::Complete });
            m2();
          },
        );
        {
          // what the inner factory does when its turn comes
          *outer_sub.lock().unwrap() = Some(sub.clone());
          let (os, me) = (outer_sub.clone(), mark_end.clone());
          if ending2 != "stop-in-scheduler-factory" {
            *factory_hook.lock().unwrap() = Some(Arc::new(move || {
            let s = os.lock().unwrap().take();
            if let Some(s) = s {
              s.unsubscribe();
              me();
            }
          }));
          }
        }
        if let Some(u) = need_unsub {
          if u > 0 {
            rt::thread::sleep(ms(u));
          } else if u < 0 {
            // a scheduler-chosen point while the subscription is still being set up on its workers
            for _ in 0..unsub_probes {
              rt::probe("c15-unsubscriber-wait");
            }
          }
          sub.unsubscribe();
          mark_end();
        } else {
          // give the pipeline (virtual) time to end by itself; cut it if it is endless
          let horizon = unsub_ms.max((n_items + 1) * gap) + 4 * d + 53;
          rt::thread::sleep(ms(horizon));
          if !*ended.lock().unwrap() {
            sub.unsubscribe();
            mark_end();
          }
        }
        loop {
          let hs: Vec<_> = std::mem::take(&mut *handles.lock().unwrap());
          if hs.is_empty() {
            break;
          }
          for h in hs {
            let _ = h.join();
          }
        }
        let t = rt::quiesce();
        if !*ended.lock().unwrap() {
          // nothing ended it (e.g. debounce over an erroring source is fine, but a pipeline that
          // never ends must be cut so that the catalogue entry is still meaningful)
          sub.unsubscribe();
          mark_end();
          rt::quiesce();
        }
        let _ = t;
        *factory_hook.lock().unwrap() = None;
        *outer_sub.lock().unwrap() = None;
        drop(sub);
      }
      *ft2.lock().unwrap() = rt::quiesce();
    });
    // ---- oracle
    let blame = construct.as_str();
    let mut v = Vec::new();
    let ends = ends.lock().unwrap().clone();
    let finals = final_tasks.lock().unwrap().clone();
    let mut history = Vec::new();
    for (i, r) in recs.lock().unwrap().iter().enumerate() {
      for e in r.events() {
        history.push(format!("{:>4} t={:>7.1}ms subscription {} gets {}", e.seq_in, e.t as f64 / 1e6, i, e.ev.show()));
      }
    }
    for (i, (t, _)) in ends.iter().enumerate() {
      history.push(format!("     t={:>7.1}ms subscription {} ended", *t as f64 / 1e6, i));
    }
    for t in &res.tasks {
      if t.origin == Origin::Library {
        history.push(format!("     worker task {} ({}) finished={} steps={} sleeps={}", t.id, t.name, t.finished, t.steps, t.sleeps));
      }
    }
    match &res.outcome {
      rt::Outcome::Ok => {}
      rt::Outcome::Leak { blocked } => v.push(Violation::new(
        "worker-leaked",
        blame,
        format!("ending '{}': worker thread(s) still blocked when everything else had finished: {}", ending, blocked.iter().map(|b| format!("task {} ({}) waits for {} at {}", b.task, b.name, b.waits_for, b.site)).collect::<Vec<_>>().join("; ")),
      )),
      _ => v.push(outcome_violation(&res, blame).unwrap()),
    }
    if v.is_empty() {
      for t in &finals {
        if t.origin == Origin::Library && !t.finished {
          v.push(Violation::new("worker-leaked", blame, format!("ending '{}': worker task {} ({}) is still alive at quiescence: {}", ending, t.id, t.name, t.wait)));
        }
      }
      // after its subscription ended a worker begins at most one further sleep (+1 under jitter-free
      // stacking of two timers) and takes a bounded number of own steps
      if repeats == 1 {
        if let Some((_, at_end)) = ends.first() {
          for t in &res.tasks {
            if t.origin != Origin::Library {
              continue;
            }
            if let Some(b) = at_end.iter().find(|x| x.id == t.id) {
              let more_sleeps = t.sleeps.saturating_sub(b.sleeps);
              let more_steps = t.steps.saturating_sub(b.steps);
              if more_sleeps > 1 {
                v.push(Violation::new("worker-lingers", blame, format!("ending '{}': worker task {} ({}) began {} further sleeps after its subscription ended (at most one timer period allowed)", ending, t.id, t.name, more_sleeps)));
              }
              if more_steps > 400 {
                v.push(Violation::new("worker-lingers", blame, format!("ending '{}': worker task {} ({}) took {} own steps after its subscription ended", ending, t.id, t.name, more_steps)));
              }
            }
          }
        }
      }
    }
    let mut fp = 0u64;
    for h in &history {
      fp = fp.wrapping_mul(0x100000001B3) ^ fnv(h);
    }
    let reach = vec![
      ("c15-workers-created", res.tasks.iter().filter(|t| t.origin == Origin::Library).count() as u64),
      ("c15-repeated-subscriptions", (repeats > 1) as u64),
    ];
    RunOut { res, violations: v, fingerprint: fp, invalid: false, reach, history }
  }
}

// ================================================================================================
// C14 for the time-based operators: the same Observable value subscribed again (after the first
// subscription ended, or while another one is running) gives each subscriber what the first, solitary
// one got - same events at the same instants relative to its own subscribe (exact virtual clock,
// per-subscription cold source with the same gaps, tie-free workloads)

pub struct C14Timed;

const C14T_KINDS: &[&str] = &["debounce", "sample", "delay", "timeout", "observe_on", "subscribe_on", "interval-take", "timer", "debounce-retry", "observe_on-retry"];

impl Family for C14Timed {
  fn name(&self) -> &'static str {
    "c14-timed-operators-resubscribed"
  }
  fn threaded(&self) -> bool {
    true
  }
  fn gen(&self, rng: &mut Rng, _tier: Tier) -> Json {
    let kind = *rng.pick(C14T_KINDS);
    let d = *rng.pick(&[100i64, 250]);
    let n = rng.range(1, 3) as i64;
    let trigger = *rng.pick(&[90i64, 160]);
    let tie_kind = if kind.starts_with("debounce") { "debounce" } else { kind };
    let mut gaps: Vec<i64>;
    loop {
      gaps = (0..n + 1)
        .map(|_| {
          let base = *rng.pick(&[d / 3, d / 2, d - 14, d + 14, 2 * d - 21, 7]);
          base.max(7) / 7 * 7 + 1 + rng.below(3) as i64
        })
        .collect();
      if !has_tie(tie_kind, d, trigger, &gaps, n) {
        break;
      }
    }
    Json::obj(vec![
      ("kind", Json::str(kind)),
      ("d_ms", Json::Int(d)),
      ("n_items", Json::Int(n)),
      ("gaps_ms", Json::arr(gaps.iter(), |g| Json::Int(*g))),
      ("trigger_ms", Json::Int(trigger)),
      // how the first, solitary subscription ends
      ("first_ending", Json::str(*rng.pick(&["complete", "complete", "error", "unsubscribe"]))),
      ("unsub_ms", Json::Int(d * rng.range(0, 2) as i64 + *rng.pick(&[13i64, 51, 77]))),
      // the later subscriptions: one after the first ended, or two that overlap
      ("overlap_ms", Json::Int(if rng.below(2) == 0 { 0 } else { *rng.pick(&[5i64, 37, 131]) })),
      ("take", Json::Int(rng.range(1, 3) as i64)),
    ])
  }
  fn knobs(&self, rng: &mut Rng, _w: &Json, _tier: Tier) -> Json {
    let mut k = default_knobs(rng, true);
    if let Json::Obj(m) = &mut k {
      m.insert("jitter_ns".into(), Json::Int(0));
      m.insert("step_budget".into(), Json::Int(80_000));
    }
    k
  }
  fn exec(&self, w: &Json, cfg: RunCfg) -> RunOut {
    let kind = w.s("kind");
    if !C14T_KINDS.contains(&kind.as_str()) || cfg.jitter_max_ns > 0 {
      return RunOut::invalid();
    }
    let d = w.i("d_ms");
    let n_items = w.i("n_items");
    let gaps: Vec<i64> = w.a("gaps_ms").iter().filter_map(|x| x.as_i64()).collect();
    let trigger_ms = w.i("trigger_ms");
    let take = w.i("take");
    let unsub_ms = w.i("unsub_ms");
    let overlap = w.i("overlap_ms");
    if d < 10 || d > 2000 || n_items < 0 || n_items > 4 || gaps.len() as i64 != n_items + 1 || gaps.iter().any(|g| *g < 1 || *g > 5000) || trigger_ms < 10 || trigger_ms > 2000 || take < 1 || take > 4 || unsub_ms < 1 || unsub_ms > 5000 || unsub_ms % d == 0 || overlap < 0 || overlap > 1000 {
      return RunOut::invalid();
    }
    let first_ending = w.s("first_ending");
    if !["complete", "error", "unsubscribe"].contains(&first_ending.as_str()) {
      return RunOut::invalid();
    }
    let retry = kind.ends_with("-retry");
    let tie_kind = if kind.starts_with("debounce") { "debounce" } else { kind.as_str() };
    if has_tie(tie_kind, d, trigger_ms, &gaps, n_items) {
      return RunOut::invalid();
    }
    let (_, t_term) = instants(&gaps, n_items);
    let mut script: Vec<Step> = (0..n_items).map(|i| Step::N(100 + i)).collect();
    script.push(if retry { Step::E(7) } else if first_ending == "error" { Step::E(5) } else { Step::C });
    let phase = (if retry { 2 } else { 1 }) * t_term + 5 * d + 3 * trigger_ms + 50;
    let gaps_ns: Vec<u64> = gaps.iter().map(|g| *g as u64 * MS).collect();
    let recs: Vec<Recorder> = (0..3).map(|_| Recorder::new()).collect();
    let t_sub: Arc<Mutex<Vec<u64>>> = Arc::new(Mutex::new(Vec::new()));
    let src_log = Arc::new(Mutex::new(SrcLog::default()));
    let (recs2, ts2, sl, kind2, sc, fe) = (recs.clone(), t_sub.clone(), src_log.clone(), kind.clone(), script.clone(), first_ending.clone());
    let res = rt::run(cfg, move || {
      let handles = Arc::new(Mutex::new(Vec::new()));
      let nts = schedulers::new_thread_scheduler;
      // under retry(2) every attempt fails after its items: two attempts, then the error
      let src: Observable<'static, Val> = threaded_source("timed-source", sc.clone(), sl.clone(), true, gaps_ns.clone(), handles.clone());
      let o: Observable<'static, Val> = match kind2.as_str() {
        "debounce" => src.debounce(ms(d), nts()),
        "debounce-retry" => src.debounce(ms(d), nts()).retry(2),
        "sample" => src.sample(observables::interval(ms(trigger_ms), nts())),
        "delay" => src.delay(ms(d)),
        "timeout" => src.timeout(ms(d), nts()),
        "observe_on" => src.observe_on(nts()),
        "observe_on-retry" => src.observe_on(nts()).retry(2),
        "subscribe_on" => src.subscribe_on(nts()),
        "interval-take" => observables::interval(ms(d), nts()).take(take as usize).map(|x| Val::Int(x as i64)),
        _ => observables::timer(ms(d), nts()).map(|_| Val::Unit),
      };
      // the first, solitary subscription
      ts2.lock().unwrap().push(rt::now_ns());
      let s0 = recs2[0].subscribe(&o);
      if fe == "unsubscribe" {
        rt::thread::sleep(ms(unsub_ms));
        s0.unsubscribe();
      }
      rt::thread::sleep(ms(phase));
      // the later ones
      ts2.lock().unwrap().push(rt::now_ns());
      let _s1 = recs2[1].subscribe(&o);
      if overlap > 0 {
        rt::thread::sleep(ms(overlap));
        ts2.lock().unwrap().push(rt::now_ns());
        let _s2 = recs2[2].subscribe(&o);
      }
      rt::thread::sleep(ms(phase + overlap));
      _s1.unsubscribe();
      loop {
        let hs: Vec<_> = std::mem::take(&mut *handles.lock().unwrap());
        if hs.is_empty() {
          break;
        }
        for h in hs {
          let _ = h.join();
        }
      }
      rt::quiesce();
    });
    let blame = kind.trim_end_matches("-retry").to_string();
    let blame = if blame == "interval-take" { "interval".to_string() } else { blame };
    let mut v = Vec::new();
    let t_sub = t_sub.lock().unwrap().clone();
    let timeline = |k: usize, cut: Option<u64>| -> Vec<(String, u64)> {
      let t0 = t_sub.get(k).copied().unwrap_or(0);
      recs[k].events().iter().map(|r| (r.ev.show(), r.t.saturating_sub(t0))).filter(|(_, t)| cut.map_or(true, |c| *t < c)).collect()
    };
    let mut history = Vec::new();
    for k in 0..t_sub.len() {
      history.push(format!("subscription {} (subscribed at {:.1}ms): {}", k, t_sub[k] as f64 / 1e6, timeline(k, None).iter().map(|(e, t)| format!("{}@+{:.1}ms", e, *t as f64 / 1e6)).collect::<Vec<_>>().join(" ")));
    }
    match &res.outcome {
      rt::Outcome::Ok | rt::Outcome::Leak { .. } => {
        // the first one was cut at unsub_ms: only what lies before that instant is comparable
        let cut = if first_ending == "unsubscribe" { Some(unsub_ms as u64 * MS) } else { None };
        let want = timeline(0, cut);
        for k in 1..t_sub.len() {
          let got = timeline(k, cut);
          if got != want {
            v.push(Violation::new(
              "resubscription-differs",
              &blame,
              format!(
                "{}: subscription {} of the same observable value ({}) got [{}]; the first, solitary subscription (ended by {}) got [{}]{}",
                kind,
                k,
                if overlap > 0 { "two later subscriptions overlap" } else { "after the first had ended" },
                got.iter().map(|(e, t)| format!("{}@+{:.1}ms", e, *t as f64 / 1e6)).collect::<Vec<_>>().join(" "),
                first_ending,
                want.iter().map(|(e, t)| format!("{}@+{:.1}ms", e, *t as f64 / 1e6)).collect::<Vec<_>>().join(" "),
                cut.map(|c| format!(" (compared up to +{:.1}ms)", c as f64 / 1e6)).unwrap_or_default()
              ),
            ));
            break;
          }
        }
      }
      _ => v.push(outcome_violation(&res, &blame).unwrap()),
    }
    let mut fp = 0u64;
    for h in &history {
      fp = fp.wrapping_mul(0x100000001B3) ^ fnv(h);
    }
    let reach = vec![("c14-timed-overlapping", (overlap > 0) as u64), ("c14-timed-first-unsubscribed", (first_ending == "unsubscribe") as u64)];
    RunOut { res, violations: v, fingerprint: fp, invalid: false, reach, history }
  }
}

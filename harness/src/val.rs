//! The one dynamic item type all pipelines carry.

use std::ops::Add;
use std::sync::Arc;

#[derive(Debug)]
pub struct ErrTok(pub i64);

/// drop-counting token (C17): live owners = Arc::strong_count(master) - 1
#[derive(Clone, Debug)]
pub struct Token(pub Arc<()>);

#[derive(Clone, Debug)]
pub enum Val {
  Unit,
  Int(i64),
  Bool(bool),
  List(Vec<Val>),
  /// (value, token) - an item that counts its owners
  Tok(i64, Token),
  /// materialized notifications: 0 = next(v), 1 = error(id), 2 = complete
  Mat(u8, Box<Val>),
}

impl Val {
  pub fn int(&self) -> i64 {
    match self {
      Val::Int(i) => *i,
      Val::Tok(i, _) => *i,
      Val::Bool(b) => *b as i64,
      Val::Unit => 0,
      Val::List(v) => v.iter().fold(0i64, |a, x| a.wrapping_add(x.int())),
      Val::Mat(k, v) => (*k as i64 * 1000).wrapping_add(v.int()),
    }
  }
  /// the same value without drop-counting tokens (what the harness may keep)
  pub fn strip(&self) -> Val {
    match self {
      Val::Tok(i, _) => Val::Int(*i),
      Val::List(v) => Val::List(v.iter().map(|x| x.strip()).collect()),
      Val::Mat(k, v) => Val::Mat(*k, Box::new(v.strip())),
      x => x.clone(),
    }
  }
  pub fn show(&self) -> String {
    match self {
      Val::Unit => "()".into(),
      Val::Int(i) => format!("{}", i),
      Val::Bool(b) => format!("{}", b),
      Val::Tok(i, _) => format!("{}", i),
      Val::List(v) => format!("[{}]", v.iter().map(|x| x.show()).collect::<Vec<_>>().join(",")),
      Val::Mat(0, v) => format!("N({})", v.show()),
      Val::Mat(1, v) => format!("E({})", v.show()),
      Val::Mat(_, _) => "C".into(),
    }
  }
}

impl PartialEq for Val {
  fn eq(&self, o: &Val) -> bool {
    match (self, o) {
      (Val::Unit, Val::Unit) => true,
      (Val::Bool(a), Val::Bool(b)) => a == b,
      (Val::List(a), Val::List(b)) => a == b,
      (Val::Mat(a, x), Val::Mat(b, y)) => a == b && x == y,
      (Val::Int(_) | Val::Tok(..), Val::Int(_) | Val::Tok(..)) => self.int() == o.int(),
      _ => false,
    }
  }
}

impl PartialOrd for Val {
  fn partial_cmp(&self, o: &Val) -> Option<std::cmp::Ordering> {
    self.int().partial_cmp(&o.int())
  }
}

impl Add for Val {
  type Output = Val;
  fn add(self, o: Val) -> Val {
    Val::Int(self.int().wrapping_add(o.int()))
  }
}

//! `Arc::strong_count` & co. followed by a scheduling point: what such a call returns is a
//! decision another thread can invalidate before the caller acts on it. (`Arc` itself stays
//! std's: clone and drop are not scheduling points.)

use crate::exec::ctx;
use std::panic::Location;
use std::sync::Arc;

#[inline]
fn point(what: &'static str, site: &'static Location<'static>) {
  if let Some(c) = ctx() {
    c.exec.yield_point(c.me, what, site);
  }
}

#[track_caller]
pub fn strong_count<T: ?Sized>(this: &Arc<T>) -> usize {
  let n = Arc::strong_count(this);
  point("arc-strong-count", Location::caller());
  n
}

#[track_caller]
pub fn weak_count<T: ?Sized>(this: &Arc<T>) -> usize {
  let n = Arc::weak_count(this);
  point("arc-weak-count", Location::caller());
  n
}

#[track_caller]
pub fn try_unwrap<T>(this: Arc<T>) -> Result<T, Arc<T>> {
  point("arc-try-unwrap", Location::caller());
  Arc::try_unwrap(this)
}

#[track_caller]
pub fn into_inner<T>(this: Arc<T>) -> Option<T> {
  point("arc-into-inner", Location::caller());
  Arc::into_inner(this)
}

#[track_caller]
pub fn get_mut<T: ?Sized>(this: &mut Arc<T>) -> Option<&mut T> {
  point("arc-get-mut", Location::caller());
  Arc::get_mut(this)
}

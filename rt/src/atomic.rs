//! Facade for `std::sync::atomic`: the same types, with a scheduling point in front of every
//! operation while a run is active (plain std behaviour otherwise). Orderings are passed through;
//! the simulated execution is sequentially consistent (one baton), so weak-memory effects are not
//! explored - only the interleavings of the operations.

pub use std::sync::atomic::{compiler_fence, fence, AtomicPtr, Ordering};

use crate::exec::ctx;
use std::panic::Location;

#[inline]
fn point(what: &'static str, site: &'static Location<'static>) {
  if let Some(c) = ctx() {
    c.exec.yield_point(c.me, what, site);
  }
}

macro_rules! common {
  ($name:ident, $std:ty, $t:ty) => {
    #[derive(Default)]
    pub struct $name($std);
    impl $name {
      pub const fn new(v: $t) -> Self {
        Self(<$std>::new(v))
      }
      pub fn into_inner(self) -> $t {
        self.0.into_inner()
      }
      pub fn get_mut(&mut self) -> &mut $t {
        self.0.get_mut()
      }
      #[track_caller]
      pub fn load(&self, o: Ordering) -> $t {
        point("atomic-load", Location::caller());
        self.0.load(o)
      }
      #[track_caller]
      pub fn store(&self, v: $t, o: Ordering) {
        point("atomic-store", Location::caller());
        self.0.store(v, o)
      }
      #[track_caller]
      pub fn swap(&self, v: $t, o: Ordering) -> $t {
        point("atomic-swap", Location::caller());
        self.0.swap(v, o)
      }
      #[track_caller]
      pub fn compare_exchange(&self, cur: $t, new: $t, s: Ordering, f: Ordering) -> Result<$t, $t> {
        point("atomic-cas", Location::caller());
        self.0.compare_exchange(cur, new, s, f)
      }
      #[track_caller]
      pub fn compare_exchange_weak(&self, cur: $t, new: $t, s: Ordering, f: Ordering) -> Result<$t, $t> {
        point("atomic-cas", Location::caller());
        // never fails spuriously here: a spurious failure is only a retry of the caller's loop
        self.0.compare_exchange(cur, new, s, f)
      }
      #[track_caller]
      pub fn fetch_update<F: FnMut($t) -> Option<$t>>(&self, s: Ordering, f: Ordering, g: F) -> Result<$t, $t> {
        point("atomic-rmw", Location::caller());
        self.0.fetch_update(s, f, g)
      }
    }
    impl From<$t> for $name {
      fn from(v: $t) -> Self {
        Self::new(v)
      }
    }
    impl std::fmt::Debug for $name {
      fn fmt(&self, f: &mut std::fmt::Formatter<'_>) -> std::fmt::Result {
        self.0.fmt(f)
      }
    }
  };
}

macro_rules! rmw {
  ($name:ident, $t:ty, $($op:ident),*) => {
    impl $name {
      $(
        #[track_caller]
        pub fn $op(&self, v: $t, o: Ordering) -> $t {
          point("atomic-rmw", Location::caller());
          self.0.$op(v, o)
        }
      )*
    }
  };
}

common!(AtomicBool, std::sync::atomic::AtomicBool, bool);
rmw!(AtomicBool, bool, fetch_and, fetch_or, fetch_xor, fetch_nand);

macro_rules! int {
  ($name:ident, $std:ty, $t:ty) => {
    common!($name, $std, $t);
    rmw!($name, $t, fetch_add, fetch_sub, fetch_and, fetch_or, fetch_xor, fetch_nand, fetch_max, fetch_min);
  };
}

int!(AtomicUsize, std::sync::atomic::AtomicUsize, usize);
int!(AtomicIsize, std::sync::atomic::AtomicIsize, isize);
int!(AtomicU8, std::sync::atomic::AtomicU8, u8);
int!(AtomicU16, std::sync::atomic::AtomicU16, u16);
int!(AtomicU32, std::sync::atomic::AtomicU32, u32);
int!(AtomicU64, std::sync::atomic::AtomicU64, u64);
int!(AtomicI8, std::sync::atomic::AtomicI8, i8);
int!(AtomicI16, std::sync::atomic::AtomicI16, i16);
int!(AtomicI32, std::sync::atomic::AtomicI32, i32);
int!(AtomicI64, std::sync::atomic::AtomicI64, i64);

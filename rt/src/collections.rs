//! Facade `HashMap` whose hasher key is derived from the run's seed, so that iteration
//! order is a function of the seed (and can be perturbed as a fault) instead of `RandomState`.

use crate::exec::ctx_even_if_panicking;
use std::borrow::Borrow;
use std::collections::hash_map::DefaultHasher;
use std::fmt;
use std::hash::{BuildHasher, Hash, Hasher};
use std::ops::{Deref, DerefMut, Index};

#[derive(Clone, Copy, Debug)]
pub struct DetState(u64);

impl DetState {
  pub fn current() -> DetState {
    match ctx_even_if_panicking() {
      Some(c) => {
        let mut st = c.exec.lock();
        st.maps_created += 1;
        DetState(st.cfg.hash_seed)
      }
      None => DetState(0),
    }
  }
}
impl Default for DetState {
  fn default() -> Self {
    DetState::current()
  }
}
impl BuildHasher for DetState {
  type Hasher = DefaultHasher;
  fn build_hasher(&self) -> DefaultHasher {
    let mut h = DefaultHasher::new();
    h.write_u64(self.0);
    h
  }
}

pub struct HashMap<K, V>(std::collections::HashMap<K, V, DetState>);

impl<K, V> HashMap<K, V> {
  pub fn new() -> HashMap<K, V> {
    HashMap(std::collections::HashMap::with_hasher(DetState::current()))
  }
  pub fn with_capacity(n: usize) -> HashMap<K, V> {
    HashMap(std::collections::HashMap::with_capacity_and_hasher(n, DetState::current()))
  }
}
impl<K, V> Default for HashMap<K, V> {
  fn default() -> Self {
    HashMap::new()
  }
}
impl<K, V> Deref for HashMap<K, V> {
  type Target = std::collections::HashMap<K, V, DetState>;
  fn deref(&self) -> &Self::Target {
    &self.0
  }
}
impl<K, V> DerefMut for HashMap<K, V> {
  fn deref_mut(&mut self) -> &mut Self::Target {
    &mut self.0
  }
}
impl<K: Clone, V: Clone> Clone for HashMap<K, V> {
  fn clone(&self) -> Self {
    HashMap(self.0.clone())
  }
}
impl<K: fmt::Debug, V: fmt::Debug> fmt::Debug for HashMap<K, V> {
  fn fmt(&self, f: &mut fmt::Formatter<'_>) -> fmt::Result {
    self.0.fmt(f)
  }
}
impl<K: Eq + Hash, V: PartialEq> PartialEq for HashMap<K, V> {
  fn eq(&self, o: &Self) -> bool {
    self.0 == o.0
  }
}
impl<K: Eq + Hash, V> FromIterator<(K, V)> for HashMap<K, V> {
  fn from_iter<I: IntoIterator<Item = (K, V)>>(it: I) -> Self {
    let mut m = HashMap::new();
    m.0.extend(it);
    m
  }
}
impl<K: Eq + Hash, V> Extend<(K, V)> for HashMap<K, V> {
  fn extend<I: IntoIterator<Item = (K, V)>>(&mut self, it: I) {
    self.0.extend(it)
  }
}
impl<K, V> IntoIterator for HashMap<K, V> {
  type Item = (K, V);
  type IntoIter = std::collections::hash_map::IntoIter<K, V>;
  fn into_iter(self) -> Self::IntoIter {
    self.0.into_iter()
  }
}
impl<'a, K, V> IntoIterator for &'a HashMap<K, V> {
  type Item = (&'a K, &'a V);
  type IntoIter = std::collections::hash_map::Iter<'a, K, V>;
  fn into_iter(self) -> Self::IntoIter {
    self.0.iter()
  }
}
impl<'a, K, V> IntoIterator for &'a mut HashMap<K, V> {
  type Item = (&'a K, &'a mut V);
  type IntoIter = std::collections::hash_map::IterMut<'a, K, V>;
  fn into_iter(self) -> Self::IntoIter {
    self.0.iter_mut()
  }
}
impl<K, Q: ?Sized, V> Index<&Q> for HashMap<K, V>
where
  K: Eq + Hash + Borrow<Q>,
  Q: Eq + Hash,
{
  type Output = V;
  fn index(&self, k: &Q) -> &V {
    self.0.get(k).expect("no entry found for key")
  }
}

//! The execution: task table, lock table, condvar table, virtual clock, scheduler.
//!
//! Every simulated task is a real OS thread; exactly one holds the baton. A task gives up
//! the baton only inside a facade call (`reschedule`). All state lives behind one std mutex.

use crate::prng::Rng;
use std::any::Any;
use std::cell::RefCell;
use std::collections::BTreeMap;
use std::panic::Location;
use std::sync::{Arc, Condvar as StdCondvar, Mutex as StdMutex, MutexGuard as StdGuard};

pub type TaskId = usize;

#[derive(Clone, Copy, Debug, PartialEq, Eq)]
pub enum Origin {
  /// task 0 and everything spawned with `spawn_harness`
  Harness,
  /// threads spawned through the facade `thread::spawn`, i.e. by the crate under test
  Library,
}

#[derive(Clone, Debug, PartialEq, Eq)]
pub enum Wait {
  Runnable,
  Lock { lock: usize, write: bool },
  Cv { cv: usize, mutex: usize, until: Option<u64> },
  Sleep { until: u64 },
  Join { target: TaskId },
  Quiesce,
  Finished,
}

#[derive(Clone, Copy, Debug, PartialEq, Eq)]
pub enum Strategy {
  Random,
  /// keep the current task with probability p/1000
  Sticky(u32),
  /// PCT with d priority change points over an estimated run length
  Pct { d: u32, len: u32 },
  /// one task (by id) only runs when nothing else can
  Starve(TaskId),
}

pub const DK_SCHED: u8 = 0;
pub const DK_SPURIOUS: u8 = 1;
pub const DK_JITTER: u8 = 2;
pub const DK_NOTIFY: u8 = 3;
pub const DK_CHOOSE: u8 = 4;

#[derive(Clone, Copy, Debug, PartialEq, Eq)]
pub struct Decision {
  pub kind: u8,
  pub n: u32,
  pub c: u32,
}

#[derive(Clone, Debug)]
pub struct RunCfg {
  pub seed: u64,
  pub strategy: Strategy,
  /// RwLock policy: readers are not admitted while a writer waits (std on Linux)
  pub writer_pref: bool,
  /// probability (per mille, per scheduling point with a condvar waiter) of a spurious wake-up
  pub spurious_permille: u32,
  /// maximal lateness of a sleep, 0 = exact timers
  pub jitter_max_ns: u64,
  pub step_budget: u64,
  pub fair_bound: u32,
  pub replay: Option<Vec<Decision>>,
  pub trace: bool,
  pub hash_seed: u64,
  /// make every guard release a scheduling point too (other tasks can then observe a held
  /// lock through try_* - only matters for code that uses try_lock/try_read/try_write)
  pub release_points: bool,
}

impl RunCfg {
  pub fn new(seed: u64) -> RunCfg {
    RunCfg {
      seed,
      strategy: Strategy::Random,
      writer_pref: true,
      spurious_permille: 0,
      jitter_max_ns: 0,
      step_budget: 200_000,
      fair_bound: 1000,
      replay: None,
      trace: false,
      hash_seed: seed,
      release_points: false,
    }
  }
}

#[derive(Clone, Debug)]
pub struct BlockedInfo {
  pub task: TaskId,
  pub name: String,
  pub origin: Origin,
  pub waits_for: String,
  pub site: String,
  pub holders: String,
}

#[derive(Clone, Debug)]
pub enum Outcome {
  Ok,
  SelfDeadlock { task: TaskId, name: String, lock: usize, wanted: &'static str, held: &'static str, site: String, held_site: String },
  Deadlock { blocked: Vec<BlockedInfo> },
  /// only library tasks are left blocked at the end
  Leak { blocked: Vec<BlockedInfo> },
  Livelock { steps: u64, hot: Vec<(TaskId, String, u64)>, sites: Vec<String> },
  Panic { task: TaskId, name: String, msg: String },
}

impl Outcome {
  pub fn class(&self) -> &'static str {
    match self {
      Outcome::Ok => "ok",
      Outcome::SelfDeadlock { .. } => "self-deadlock",
      Outcome::Deadlock { .. } => "deadlock",
      Outcome::Leak { .. } => "leak",
      Outcome::Livelock { .. } => "livelock",
      Outcome::Panic { .. } => "panic",
    }
  }
  pub fn is_ok(&self) -> bool {
    matches!(self, Outcome::Ok)
  }
  pub fn describe(&self) -> String {
    match self {
      Outcome::Ok => "ok".into(),
      Outcome::SelfDeadlock { task, name, lock, wanted, held, site, held_site } => format!(
        "self-deadlock: task {task} ({name}) requests {wanted} on L{lock} at {site} while holding {held} acquired at {held_site}"
      ),
      Outcome::Deadlock { blocked } | Outcome::Leak { blocked } => {
        let mut s = format!("{}: ", self.class());
        for b in blocked {
          s += &format!(
            "[task {} ({}, {:?}) waits for {} at {}{}] ",
            b.task,
            b.name,
            b.origin,
            b.waits_for,
            b.site,
            if b.holders.is_empty() { String::new() } else { format!(" held by {}", b.holders) }
          );
        }
        s
      }
      Outcome::Livelock { steps, hot, sites } => format!(
        "livelock: step budget exhausted after {steps} steps; busiest tasks in the last window {:?}; recent sites {:?}",
        hot, sites
      ),
      Outcome::Panic { task, name, msg } => format!("panic in task {task} ({name}): {msg}"),
    }
  }
}

#[derive(Clone, Debug)]
pub struct TaskInfo {
  pub id: TaskId,
  pub name: String,
  pub origin: Origin,
  pub finished: bool,
  pub wait: String,
  pub steps: u64,
  pub sleeps: u64,
}

#[derive(Clone, Debug, Default)]
pub struct FaultCounts {
  pub spurious: u64,
  pub jitter: u64,
}

#[derive(Clone, Debug)]
pub struct RunResult {
  pub outcome: Outcome,
  pub decisions: Vec<Decision>,
  pub trace_hash: u64,
  pub steps: u64,
  pub switches: u64,
  pub sim_time_ns: u64,
  pub faults: FaultCounts,
  pub tasks: Vec<TaskInfo>,
  pub trace: Vec<String>,
  pub counters: BTreeMap<&'static str, u64>,
  pub abandoned_os_threads: usize,
}

pub(crate) struct Task {
  pub name: String,
  pub origin: Origin,
  pub wait: Wait,
  pub steps: u64,
  pub sleeps: u64,
  pub bypass: u32,
  pub prio: u64,
  pub cv: Arc<StdCondvar>,
  pub site: Option<&'static Location<'static>>,
  pub recent_steps: u64,
}

pub(crate) struct LockSt {
  pub writer: Option<(TaskId, &'static Location<'static>)>,
  pub readers: Vec<(TaskId, &'static Location<'static>)>,
  pub is_mutex: bool,
}

pub(crate) struct CvSt {
  pub waiters: Vec<TaskId>,
}

pub(crate) struct State {
  pub cfg: RunCfg,
  pub tasks: Vec<Task>,
  pub locks: Vec<LockSt>,
  pub cvs: Vec<CvSt>,
  pub current: TaskId,
  pub now: u64,
  pub seq: u64,
  pub steps: u64,
  pub switches: u64,
  pub sched_rng: Rng,
  pub fault_rng: Rng,
  pub decisions: Vec<Decision>,
  pub replay_pos: usize,
  pub outcome: Option<Outcome>,
  pub aborting: bool,
  pub live_os_threads: usize,
  pub trace_hash: u64,
  pub trace: Vec<String>,
  pub recent_sites: Vec<String>,
  pub faults: FaultCounts,
  pub counters: BTreeMap<&'static str, u64>,
  pub pct_changes: Vec<u64>,
  pub maps_created: u64,
}

pub struct Exec {
  pub(crate) st: StdMutex<State>,
  pub(crate) done_cv: StdCondvar,
  pub(crate) serial: u32,
}

/// payload used to unwind parked tasks when a run is over
pub(crate) struct AbortRun;

#[derive(Clone)]
pub(crate) struct Ctx {
  pub exec: Arc<Exec>,
  pub me: TaskId,
  pub cv: Arc<StdCondvar>,
}

thread_local! {
  static CTX: RefCell<Option<Ctx>> = const { RefCell::new(None) };
  pub(crate) static PANIC_MSG: RefCell<Option<String>> = const { RefCell::new(None) };
}

pub(crate) fn set_ctx(c: Option<Ctx>) {
  CTX.with(|x| *x.borrow_mut() = c);
}

/// the context of the calling thread if it is a task of a live run and not unwinding
pub(crate) fn ctx() -> Option<Ctx> {
  if std::thread::panicking() {
    return None;
  }
  CTX.with(|x| x.borrow().clone())
}

pub(crate) fn ctx_even_if_panicking() -> Option<Ctx> {
  CTX.with(|x| x.borrow().clone())
}

static EXEC_SERIAL: std::sync::atomic::AtomicU32 = std::sync::atomic::AtomicU32::new(1);

type G<'a> = StdGuard<'a, State>;

fn mix(h: &mut u64, v: u64) {
  *h ^= v.wrapping_add(0x9E37_79B9_7F4A_7C15).wrapping_add(*h << 6).wrapping_add(*h >> 2);
  *h = h.wrapping_mul(0x0000_0100_0000_01B3);
}

fn loc(l: Option<&'static Location<'static>>) -> String {
  match l {
    Some(l) => {
      let f = l.file();
      let f = match f.find("/src/") {
        Some(i) => &f[i + 1..],
        None => f,
      };
      format!("{}:{}", f, l.line())
    }
    None => "?".into(),
  }
}

impl Exec {
  pub(crate) fn new(cfg: RunCfg) -> Arc<Exec> {
    let serial = EXEC_SERIAL.fetch_add(1, std::sync::atomic::Ordering::Relaxed);
    let mut sched_rng = Rng::stream(cfg.seed, "schedule");
    let fault_rng = Rng::stream(cfg.seed, "faults");
    let mut pct_changes = Vec::new();
    if let Strategy::Pct { d, len } = cfg.strategy {
      for _ in 0..d {
        pct_changes.push(sched_rng.range(1, len.max(2) as u64));
      }
    }
    let prio0 = 1_000_000 + sched_rng.below(1_000_000);
    let st = State {
      tasks: vec![Task {
        name: "main".into(),
        origin: Origin::Harness,
        wait: Wait::Runnable,
        steps: 0,
        sleeps: 0,
        bypass: 0,
        prio: prio0,
        cv: Arc::new(StdCondvar::new()),
        site: None,
        recent_steps: 0,
      }],
      locks: Vec::new(),
      cvs: Vec::new(),
      current: 0,
      now: 0,
      seq: 0,
      steps: 0,
      switches: 0,
      sched_rng,
      fault_rng,
      decisions: Vec::new(),
      replay_pos: 0,
      outcome: None,
      aborting: false,
      live_os_threads: 0,
      trace_hash: 0x1234_5678_9abc_def0,
      trace: Vec::new(),
      recent_sites: Vec::new(),
      faults: FaultCounts::default(),
      counters: BTreeMap::new(),
      pct_changes,
      maps_created: 0,
      cfg,
    };
    Arc::new(Exec { st: StdMutex::new(st), done_cv: StdCondvar::new(), serial })
  }

  pub(crate) fn lock(&self) -> G<'_> {
    match self.st.lock() {
      Ok(g) => g,
      Err(e) => e.into_inner(),
    }
  }

  // ------------------------------------------------------------------ decisions

  fn decide(st: &mut State, kind: u8, n: usize, default_draw: impl FnOnce(&mut State) -> usize) -> usize {
    debug_assert!(n >= 2);
    let c = if let Some(rp) = &st.cfg.replay {
      let c = if st.replay_pos < rp.len() && (rp[st.replay_pos].c as usize) < n {
        rp[st.replay_pos].c as usize
      } else {
        0
      };
      st.replay_pos += 1;
      c
    } else {
      default_draw(st)
    };
    st.decisions.push(Decision { kind, n: n as u32, c: c as u32 });
    mix(&mut st.trace_hash, ((kind as u64) << 40) | ((n as u64) << 20) | c as u64);
    c
  }

  // ------------------------------------------------------------------ admission

  fn has_waiting_writer(st: &State, lock: usize, except: TaskId) -> bool {
    st.tasks.iter().enumerate().any(|(i, t)| {
      i != except && matches!(t.wait, Wait::Lock { lock: l, write: true } if l == lock)
    })
  }

  fn admissible(st: &State, t: TaskId, lock: usize, write: bool) -> bool {
    let l = &st.locks[lock];
    if write {
      l.writer.is_none() && l.readers.is_empty()
    } else {
      l.writer.is_none() && (!st.cfg.writer_pref || !Self::has_waiting_writer(st, lock, t))
    }
  }

  fn enabled(st: &State, t: TaskId) -> bool {
    match &st.tasks[t].wait {
      Wait::Runnable => true,
      Wait::Lock { lock, write } => Self::admissible(st, t, *lock, *write),
      Wait::Join { target } => st.tasks[*target].wait == Wait::Finished,
      _ => false,
    }
  }

  fn grant(st: &mut State, t: TaskId) {
    match st.tasks[t].wait.clone() {
      Wait::Lock { lock, write } => {
        let site = st.tasks[t].site.unwrap_or(Location::caller());
        if write {
          st.locks[lock].writer = Some((t, site));
        } else {
          st.locks[lock].readers.push((t, site));
        }
        mix(&mut st.trace_hash, 0xA000 | ((lock as u64) << 20) | ((t as u64) << 1) | write as u64);
        st.tasks[t].wait = Wait::Runnable;
      }
      Wait::Join { .. } => st.tasks[t].wait = Wait::Runnable,
      _ => {}
    }
  }

  // ------------------------------------------------------------------ end of run

  fn blocked_report(st: &State) -> Vec<BlockedInfo> {
    let mut v = Vec::new();
    for (i, t) in st.tasks.iter().enumerate() {
      let (waits_for, holders) = match &t.wait {
        Wait::Finished | Wait::Runnable => continue,
        Wait::Lock { lock, write } => {
          let l = &st.locks[*lock];
          let mut h = String::new();
          if let Some((w, s)) = l.writer {
            h += &format!("writer task {} ({})", w, loc(Some(s)));
          }
          for (r, s) in &l.readers {
            h += &format!(" reader task {} ({})", r, loc(Some(s)));
          }
          if !*write && l.writer.is_none() {
            h += " [read blocked behind a queued writer]";
          }
          (
            format!(
              "{} L{}",
              if l.is_mutex { "mutex" } else if *write { "write lock" } else { "read lock" },
              lock
            ),
            h,
          )
        }
        Wait::Cv { cv, .. } => (format!("condvar C{}", cv), String::new()),
        Wait::Sleep { until } => (format!("sleep until {}", until), String::new()),
        Wait::Join { target } => (format!("join of task {}", target), String::new()),
        Wait::Quiesce => ("quiescence".to_string(), String::new()),
      };
      v.push(BlockedInfo {
        task: i,
        name: t.name.clone(),
        origin: t.origin,
        waits_for,
        site: loc(t.site),
        holders,
      });
    }
    v
  }

  /// Ends the run. Wakes every parked task (they unwind with `AbortRun`).
  fn finish_run(&self, st: &mut State, o: Outcome) {
    if st.outcome.is_none() {
      st.outcome = Some(o);
    }
    st.aborting = true;
    for t in &st.tasks {
      t.cv.notify_all();
    }
    self.done_cv.notify_all();
  }

  fn abort_self(&self, st: G<'_>) -> ! {
    drop(st);
    std::panic::resume_unwind(Box::new(AbortRun));
  }

  // ------------------------------------------------------------------ the scheduler

  /// Called by the task holding the baton after it has set its own `wait` state.
  /// Picks the next task; returns when `me` holds the baton again (and, if it waited for a
  /// lock, has been granted it). With `is_exit` the caller is finished and does not wait.
  pub(crate) fn reschedule<'a>(&'a self, mut st: G<'a>, me: TaskId, is_exit: bool) -> Option<G<'a>> {
    if st.aborting {
      if is_exit {
        return None;
      }
      self.abort_self(st);
    }
    st.steps += 1;
    st.tasks[me].steps += 1;
    st.tasks[me].recent_steps += 1;
    if st.steps % 4096 == 0 {
      for t in st.tasks.iter_mut() {
        t.recent_steps = 0;
      }
    }
    if st.steps > st.cfg.step_budget {
      let mut hot: Vec<(TaskId, String, u64)> = st
        .tasks
        .iter()
        .enumerate()
        .filter(|(_, t)| t.recent_steps > 0)
        .map(|(i, t)| (i, t.name.clone(), t.recent_steps))
        .collect();
      hot.sort_by(|a, b| b.2.cmp(&a.2));
      let sites = st.recent_sites.clone();
      let steps = st.steps;
      self.finish_run(&mut st, Outcome::Livelock { steps, hot, sites });
      if is_exit {
        return None;
      }
      self.abort_self(st);
    }
    // PCT priority change points
    if let Strategy::Pct { d, .. } = st.cfg.strategy {
      let s = st.steps;
      let mut k = 0;
      for (i, c) in st.pct_changes.clone().iter().enumerate() {
        if *c == s {
          k = (d as u64).saturating_sub(i as u64).max(1);
        }
      }
      if k > 0 {
        st.tasks[me].prio = k;
      }
    }
    loop {
      // fault: spurious wake-up of a condvar waiter
      if st.cfg.spurious_permille > 0 {
        let waiters: Vec<TaskId> =
          (0..st.tasks.len()).filter(|i| matches!(st.tasks[*i].wait, Wait::Cv { .. })).collect();
        if !waiters.is_empty() {
          let p = st.cfg.spurious_permille;
          let n = waiters.len() + 1;
          let c = Self::decide(&mut st, DK_SPURIOUS, n, |st| {
            if st.fault_rng.chance(p) {
              1 + st.fault_rng.below((n - 1) as u64) as usize
            } else {
              0
            }
          });
          if c > 0 {
            let w = waiters[c - 1];
            Self::wake_cv_waiter(&mut st, w);
            st.faults.spurious += 1;
          }
        }
      }
      let cur_enabled = Self::enabled(&st, me);
      let mut en: Vec<TaskId> = Vec::with_capacity(st.tasks.len());
      if cur_enabled {
        en.push(me);
      }
      for i in 0..st.tasks.len() {
        if i != me && Self::enabled(&st, i) {
          en.push(i);
        }
      }
      if en.is_empty() {
        // advance the virtual clock to the earliest wake-up
        let mut min_until: Option<u64> = None;
        for t in &st.tasks {
          let u = match &t.wait {
            Wait::Sleep { until } => Some(*until),
            Wait::Cv { until: Some(u), .. } => Some(*u),
            _ => None,
          };
          if let Some(u) = u {
            min_until = Some(min_until.map_or(u, |m: u64| m.min(u)));
          }
        }
        if let Some(u) = min_until {
          if u > st.now {
            st.now = u;
          }
          let now = st.now;
          for i in 0..st.tasks.len() {
            match st.tasks[i].wait.clone() {
              Wait::Sleep { until } if until <= now => st.tasks[i].wait = Wait::Runnable,
              Wait::Cv { until: Some(u), .. } if u <= now => Self::wake_cv_waiter(&mut st, i),
              _ => {}
            }
          }
          mix(&mut st.trace_hash, 0xC10C ^ now);
          continue;
        }
        // quiescence reached: release the tasks waiting for it
        let mut any_q = false;
        for t in st.tasks.iter_mut() {
          if t.wait == Wait::Quiesce {
            t.wait = Wait::Runnable;
            any_q = true;
          }
        }
        if any_q {
          continue;
        }
        // nothing can ever run again
        let all_done = st.tasks.iter().all(|t| t.wait == Wait::Finished);
        let o = if all_done {
          Outcome::Ok
        } else {
          let blocked = Self::blocked_report(&st);
          if blocked.iter().any(|b| b.origin == Origin::Harness) {
            Outcome::Deadlock { blocked }
          } else {
            Outcome::Leak { blocked }
          }
        };
        self.finish_run(&mut st, o);
        if is_exit {
          return None;
        }
        self.abort_self(st);
      }
      // choose
      let idx = if en.len() == 1 {
        0
      } else {
        let fair = st.cfg.fair_bound;
        let forced = en.iter().position(|t| st.tasks[*t].bypass >= fair);
        let strategy = st.cfg.strategy;
        let en2 = en.clone();
        if let Some(f) = forced {
          // bounded bypass: a deterministic function of the history, not a recorded decision
          f
        } else {
        Self::decide(&mut st, DK_SCHED, en.len(), |st| {
          let n = en2.len();
          match strategy {
            Strategy::Random => st.sched_rng.below(n as u64) as usize,
            Strategy::Sticky(p) => {
              if cur_enabled && st.sched_rng.chance(p) {
                0
              } else if cur_enabled {
                1 + st.sched_rng.below((n - 1) as u64) as usize
              } else {
                st.sched_rng.below(n as u64) as usize
              }
            }
            Strategy::Pct { .. } => {
              let mut best = 0;
              for (i, t) in en2.iter().enumerate() {
                if st.tasks[*t].prio > st.tasks[en2[best]].prio {
                  best = i;
                }
              }
              best
            }
            Strategy::Starve(v) => {
              let others: Vec<usize> = (0..n).filter(|i| en2[*i] != v).collect();
              if others.is_empty() {
                0
              } else {
                others[st.sched_rng.below(others.len() as u64) as usize]
              }
            }
          }
        })
        }
      };
      let next = en[idx];
      for t in &en {
        if *t == next {
          st.tasks[*t].bypass = 0;
        } else {
          st.tasks[*t].bypass += 1;
        }
      }
      Self::grant(&mut st, next);
      mix(&mut st.trace_hash, ((me as u64) << 8) | next as u64);
      if next == me {
        return Some(st);
      }
      st.current = next;
      st.switches += 1;
      st.tasks[next].cv.notify_all();
      if is_exit {
        return None;
      }
      let cv = st.tasks[me].cv.clone();
      while st.current != me && !st.aborting {
        st = match cv.wait(st) {
          Ok(g) => g,
          Err(e) => e.into_inner(),
        };
      }
      if st.aborting {
        self.abort_self(st);
      }
      return Some(st);
    }
  }

  fn wake_cv_waiter(st: &mut State, w: TaskId) {
    if let Wait::Cv { cv, mutex, .. } = st.tasks[w].wait.clone() {
      st.cvs[cv].waiters.retain(|x| *x != w);
      st.tasks[w].wait = Wait::Lock { lock: mutex, write: true };
    }
  }

  fn note_site(st: &mut State, me: TaskId, op: &str, what: String, site: &'static Location<'static>) {
    st.tasks[me].site = Some(site);
    if st.cfg.trace {
      let s = format!("t{} {} {} @{}", me, op, what, loc(Some(site)));
      st.trace.push(s);
      if st.trace.len() > 4000 {
        st.trace.drain(0..2000);
      }
    }
    if st.steps + 64 > st.cfg.step_budget {
      st.recent_sites.push(format!("t{} {} {} @{}", me, op, what, loc(Some(site))));
      if st.recent_sites.len() > 24 {
        st.recent_sites.remove(0);
      }
    }
  }

  // ------------------------------------------------------------------ primitives used by the facade

  pub(crate) fn new_lock(st: &mut State, is_mutex: bool) -> usize {
    st.locks.push(LockSt { writer: None, readers: Vec::new(), is_mutex });
    st.locks.len() - 1
  }

  pub(crate) fn new_cv(st: &mut State) -> usize {
    st.cvs.push(CvSt { waiters: Vec::new() });
    st.cvs.len() - 1
  }

  fn check_self_deadlock<'a>(&self, mut st: G<'a>, me: TaskId, lock: usize, write: bool, site: &'static Location<'static>) -> G<'a> {
    let l = &st.locks[lock];
    let held_w = l.writer.filter(|(t, _)| *t == me);
    let held_r = l.readers.iter().find(|(t, _)| *t == me).copied();
    let conflict = if let Some((_, s)) = held_w {
      Some((if l.is_mutex { "the mutex" } else { "the write lock" }, s))
    } else if write {
      held_r.map(|(_, s)| ("a read lock", s))
    } else {
      None
    };
    if let Some((held, hs)) = conflict {
      let o = Outcome::SelfDeadlock {
        task: me,
        name: st.tasks[me].name.clone(),
        lock,
        wanted: if st.locks[lock].is_mutex { "the mutex" } else if write { "the write lock" } else { "a read lock" },
        held,
        site: loc(Some(site)),
        held_site: loc(Some(hs)),
      };
      self.finish_run(&mut st, o);
      self.abort_self(st);
    }
    st
  }

  /// blocking acquire; returns once granted
  pub(crate) fn acquire(&self, me: TaskId, resolve: impl FnOnce(&mut State) -> usize, write: bool, site: &'static Location<'static>) -> usize {
    let mut st = self.lock();
    if st.aborting {
      self.abort_self(st);
    }
    let lock = resolve(&mut st);
    Self::note_site(&mut st, me, if write { "acq-w" } else { "acq-r" }, format!("L{}", lock), site);
    // scheduling point before the acquisition
    st.tasks[me].wait = Wait::Runnable;
    st = self.reschedule(st, me, false).unwrap();
    st = self.check_self_deadlock(st, me, lock, write, site);
    if Self::admissible(&st, me, lock, write) {
      st.tasks[me].wait = Wait::Lock { lock, write };
      Self::grant(&mut st, me);
      return lock;
    }
    st.tasks[me].wait = Wait::Lock { lock, write };
    let _st = self.reschedule(st, me, false).unwrap();
    lock
  }

  /// non-blocking acquire (try_*): scheduling point, then admission test
  pub(crate) fn try_acquire(&self, me: TaskId, resolve: impl FnOnce(&mut State) -> usize, write: bool, site: &'static Location<'static>) -> Option<usize> {
    let mut st = self.lock();
    if st.aborting {
      self.abort_self(st);
    }
    let lock = resolve(&mut st);
    Self::note_site(&mut st, me, if write { "try-w" } else { "try-r" }, format!("L{}", lock), site);
    st.tasks[me].wait = Wait::Runnable;
    st = self.reschedule(st, me, false).unwrap();
    let l = &st.locks[lock];
    let mine = l.writer.map_or(false, |(t, _)| t == me) || (write && l.readers.iter().any(|(t, _)| *t == me));
    if !mine && Self::admissible(&st, me, lock, write) {
      st.tasks[me].wait = Wait::Lock { lock, write };
      Self::grant(&mut st, me);
      Some(lock)
    } else {
      None
    }
  }

  pub(crate) fn release(&self, me: TaskId, lock: usize, write: bool) {
    let mut st = self.lock();
    if st.aborting {
      return;
    }
    if st.cfg.release_points && st.tasks.len() > 1 && !std::thread::panicking() && st.current == me {
      // scheduling point while the lock is still held
      st.tasks[me].wait = Wait::Runnable;
      st = self.reschedule(st, me, false).unwrap();
    }
    let l = &mut st.locks[lock];
    if write {
      if l.writer.map_or(false, |(t, _)| t == me) {
        l.writer = None;
      }
    } else if let Some(p) = l.readers.iter().rposition(|(t, _)| *t == me) {
      l.readers.remove(p);
    }
    mix(&mut st.trace_hash, 0xB000 | ((lock as u64) << 20) | ((me as u64) << 1) | write as u64);
    if st.cfg.trace {
      st.trace.push(format!("t{} rel-{} L{}", me, if write { "w" } else { "r" }, lock));
    }
  }

  /// Condvar::wait: releases the mutex, blocks until notified (or `until`), re-acquires.
  /// Returns true if the wait timed out.
  pub(crate) fn cv_wait(&self, me: TaskId, cv: usize, mutex: usize, timeout_ns: Option<u64>, site: &'static Location<'static>) -> bool {
    let mut st = self.lock();
    if st.aborting {
      self.abort_self(st);
    }
    Self::note_site(&mut st, me, "cv-wait", format!("C{} L{}", cv, mutex), site);
    // scheduling point before the wait (the mutex is still held): whatever the waiter checked
    // outside this mutex may change, and a notify may be issued, before it is registered
    st.tasks[me].wait = Wait::Runnable;
    st = self.reschedule(st, me, false).unwrap();
    if st.locks[mutex].writer.map_or(false, |(t, _)| t == me) {
      st.locks[mutex].writer = None;
    }
    let until = timeout_ns.map(|d| st.now.saturating_add(d));
    st.tasks[me].wait = Wait::Cv { cv, mutex, until };
    st.cvs[cv].waiters.push(me);
    let st = self.reschedule(st, me, false).unwrap();
    // woken (notify, spurious or timeout) and mutex re-granted
    match until {
      Some(u) => st.now >= u,
      None => false,
    }
  }

  pub(crate) fn cv_notify(&self, me: TaskId, cv: usize, all: bool, site: &'static Location<'static>) {
    let mut st = self.lock();
    if st.aborting {
      self.abort_self(st);
    }
    Self::note_site(&mut st, me, if all { "notify-all" } else { "notify-one" }, format!("C{}", cv), site);
    // scheduling point before the notify
    st.tasks[me].wait = Wait::Runnable;
    st = self.reschedule(st, me, false).unwrap();
    let waiters = st.cvs[cv].waiters.clone();
    if !waiters.is_empty() {
      if all {
        for w in waiters {
          Self::wake_cv_waiter(&mut st, w);
        }
      } else {
        let n = waiters.len();
        let c = if n == 1 { 0 } else { Self::decide(&mut st, DK_NOTIFY, n, |st| st.sched_rng.below(n as u64) as usize) };
        Self::wake_cv_waiter(&mut st, waiters[c]);
      }
    }
  }

  pub(crate) fn sleep(&self, me: TaskId, dur_ns: u64, site: &'static Location<'static>) {
    let mut st = self.lock();
    if st.aborting {
      self.abort_self(st);
    }
    Self::note_site(&mut st, me, "sleep", format!("{}ns", dur_ns), site);
    let mut extra = 0;
    if st.cfg.jitter_max_ns > 0 {
      let jm = st.cfg.jitter_max_ns;
      let c = Self::decide(&mut st, DK_JITTER, 4, |st| if st.fault_rng.chance(500) { 0 } else { 1 + st.fault_rng.below(3) as usize });
      if c > 0 {
        extra = jm * c as u64 / 3;
        st.faults.jitter += 1;
      }
    }
    st.tasks[me].sleeps += 1;
    let until = st.now.saturating_add(dur_ns).saturating_add(extra);
    st.tasks[me].wait = Wait::Sleep { until };
    let _ = self.reschedule(st, me, false);
  }

  /// plain scheduling point
  pub(crate) fn yield_point(&self, me: TaskId, what: &str, site: &'static Location<'static>) {
    let mut st = self.lock();
    if st.aborting {
      self.abort_self(st);
    }
    Self::note_site(&mut st, me, "yield", what.to_string(), site);
    st.tasks[me].wait = Wait::Runnable;
    let _ = self.reschedule(st, me, false);
  }

  pub(crate) fn quiesce(&self, me: TaskId, site: &'static Location<'static>) -> Vec<TaskInfo> {
    let mut st = self.lock();
    if st.aborting {
      self.abort_self(st);
    }
    Self::note_site(&mut st, me, "quiesce", String::new(), site);
    st.tasks[me].wait = Wait::Quiesce;
    let st = self.reschedule(st, me, false).unwrap();
    Self::task_infos(&st)
  }

  pub(crate) fn join(&self, me: TaskId, target: TaskId, site: &'static Location<'static>) {
    let mut st = self.lock();
    if st.aborting {
      self.abort_self(st);
    }
    Self::note_site(&mut st, me, "join", format!("t{}", target), site);
    st.tasks[me].wait = Wait::Join { target };
    let _ = self.reschedule(st, me, false);
  }

  pub(crate) fn task_infos(st: &State) -> Vec<TaskInfo> {
    st.tasks
      .iter()
      .enumerate()
      .map(|(i, t)| TaskInfo {
        id: i,
        name: t.name.clone(),
        origin: t.origin,
        finished: t.wait == Wait::Finished,
        wait: format!("{:?}", t.wait),
        steps: t.steps,
        sleeps: t.sleeps,
      })
      .collect()
  }

  /// registers a new task (runnable); the OS thread is started by the caller
  pub(crate) fn add_task(&self, name: String, origin: Origin) -> (TaskId, Arc<StdCondvar>) {
    let mut st = self.lock();
    let cv = Arc::new(StdCondvar::new());
    let prio = 1_000_000 + st.sched_rng.below(1_000_000);
    st.tasks.push(Task {
      name,
      origin,
      wait: Wait::Runnable,
      steps: 0,
      sleeps: 0,
      bypass: 0,
      prio,
      cv: cv.clone(),
      site: None,
      recent_steps: 0,
    });
    st.live_os_threads += 1;
    let id = st.tasks.len() - 1;
    mix(&mut st.trace_hash, 0x5EED ^ id as u64);
    (id, cv)
  }

  /// first thing a task's OS thread does: wait for the baton. false = run already over.
  pub(crate) fn wait_first_baton(&self, me: TaskId, cv: &StdCondvar) -> bool {
    let mut st = self.lock();
    while st.current != me && !st.aborting {
      st = match cv.wait(st) {
        Ok(g) => g,
        Err(e) => e.into_inner(),
      };
    }
    !st.aborting
  }

  /// task end (normal return, AbortRun unwind, or real panic)
  pub(crate) fn task_exit(&self, me: TaskId, panic: Option<Box<dyn Any + Send>>, is_os_thread: bool) {
    let mut st = self.lock();
    let mut real_panic = None;
    if let Some(p) = panic {
      if !p.is::<AbortRun>() {
        let msg = if let Some(s) = p.downcast_ref::<&str>() {
          s.to_string()
        } else if let Some(s) = p.downcast_ref::<String>() {
          s.clone()
        } else {
          "<non-string panic payload>".to_string()
        };
        let extra = PANIC_MSG.with(|m| m.borrow_mut().take()).unwrap_or_default();
        real_panic = Some(if extra.is_empty() { msg } else { extra });
      }
    }
    if let Some(msg) = real_panic {
      let name = st.tasks[me].name.clone();
      st.tasks[me].wait = Wait::Finished;
      self.finish_run(&mut st, Outcome::Panic { task: me, name, msg });
    } else if !st.aborting {
      st.tasks[me].wait = Wait::Finished;
      if st.cfg.trace {
        st.trace.push(format!("t{} exit", me));
      }
      // hand the baton on
      if let Some(g) = self.reschedule(st, me, true) {
        st = g;
      } else {
        st = self.lock();
      }
    }
    if is_os_thread {
      st.live_os_threads -= 1;
    }
    self.done_cv.notify_all();
  }

  pub(crate) fn into_result(&self) -> RunResult {
    let mut st = self.lock();
    // wait for the run to end and the task threads to go away
    let deadline = std::time::Instant::now() + std::time::Duration::from_secs(20);
    while st.outcome.is_none() || st.live_os_threads > 0 {
      if st.outcome.is_some() && std::time::Instant::now() > deadline {
        break;
      }
      let (g, _) = match self.done_cv.wait_timeout(st, std::time::Duration::from_millis(200)) {
        Ok(x) => x,
        Err(e) => e.into_inner(),
      };
      st = g;
      if st.outcome.is_none() && std::time::Instant::now() > deadline + std::time::Duration::from_secs(100) {
        // real-time watchdog: something blocks outside the facade
        let blocked = Self::blocked_report(&st);
        st.outcome = Some(Outcome::Panic {
          task: st.current,
          name: "watchdog".into(),
          msg: format!("harness watchdog: no progress in real time; current task {} ; {:?}", st.current, blocked),
        });
        st.aborting = true;
        for t in &st.tasks {
          t.cv.notify_all();
        }
        break;
      }
    }
    RunResult {
      outcome: st.outcome.clone().unwrap_or(Outcome::Ok),
      decisions: std::mem::take(&mut st.decisions),
      trace_hash: st.trace_hash,
      steps: st.steps,
      switches: st.switches,
      sim_time_ns: st.now,
      faults: st.faults.clone(),
      tasks: Self::task_infos(&st),
      trace: std::mem::take(&mut st.trace),
      counters: std::mem::take(&mut st.counters),
      abandoned_os_threads: st.live_os_threads,
    }
  }
}

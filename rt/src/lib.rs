//! rxsim-rt: a deterministic-simulation runtime for code written against
//! `std::sync::{RwLock, Mutex, Condvar}`, `std::thread` and `std::time`.
//!
//! Real OS threads, one baton, every scheduling decision drawn from a seeded PRNG and
//! recorded, virtual discrete-event clock. See /verif/DESIGN.md section 3.

pub mod arc_obs;
pub mod atomic;
pub mod collections;
pub mod exec;
pub mod mpsc;
mod pool;
pub mod prng;
pub mod sync;
pub mod thread;
pub mod time;

pub use exec::{
  BlockedInfo, Decision, FaultCounts, Origin, Outcome, RunCfg, RunResult, Strategy, TaskId, TaskInfo, DK_CHOOSE,
  DK_JITTER, DK_NOTIFY, DK_SCHED, DK_SPURIOUS,
};
pub use thread::spawn_harness;

use exec::{ctx, ctx_even_if_panicking, set_ctx, Ctx, Exec};
use std::panic::{catch_unwind, AssertUnwindSafe, Location};
use std::sync::Once;

static HOOK: Once = Once::new();

fn install_panic_hook() {
  HOOK.call_once(|| {
    let prev = std::panic::take_hook();
    std::panic::set_hook(Box::new(move |info| {
      if ctx_even_if_panicking().is_some() {
        // a simulated task: record, stay silent (the run reports it)
        let msg = if let Some(s) = info.payload().downcast_ref::<&str>() {
          s.to_string()
        } else if let Some(s) = info.payload().downcast_ref::<String>() {
          s.clone()
        } else {
          "<panic>".to_string()
        };
        let at = info.location().map(|l| format!(" at {}:{}", l.file(), l.line())).unwrap_or_default();
        exec::PANIC_MSG.with(|m| *m.borrow_mut() = Some(format!("{}{}", msg, at)));
      } else {
        prev(info);
      }
    }));
  });
}

/// One simulated execution. `main` is task 0 and runs on the calling thread.
pub fn run<F: FnOnce()>(cfg: RunCfg, main: F) -> RunResult {
  install_panic_hook();
  assert!(ctx_even_if_panicking().is_none(), "nested rxsim_rt::run");
  let exec = Exec::new(cfg);
  let cv = exec.lock().tasks[0].cv.clone();
  set_ctx(Some(Ctx { exec: exec.clone(), me: 0, cv }));
  let r = catch_unwind(AssertUnwindSafe(main));
  exec.task_exit(0, r.err(), false);
  set_ctx(None);
  exec.into_result()
}

pub fn in_sim() -> bool {
  ctx().is_some()
}

/// id of the calling task (0 = main); None outside a run
pub fn task_id() -> Option<TaskId> {
  ctx_even_if_panicking().map(|c| c.me)
}

/// virtual time in ns
pub fn now_ns() -> u64 {
  ctx_even_if_panicking().map(|c| c.exec.lock().now).unwrap_or(0)
}

/// global logical clock: every call returns a fresh, larger stamp. Not a scheduling point.
pub fn seq() -> u64 {
  match ctx_even_if_panicking() {
    Some(c) => {
      let mut st = c.exec.lock();
      st.seq += 1;
      st.seq
    }
    None => 0,
  }
}

/// explicit scheduling point + reach counter
#[track_caller]
pub fn probe(name: &'static str) {
  let site = Location::caller();
  if let Some(c) = ctx() {
    {
      let mut st = c.exec.lock();
      *st.counters.entry(name).or_insert(0) += 1;
    }
    c.exec.yield_point(c.me, name, site);
  }
}

/// reach counter without a scheduling point
pub fn count(name: &'static str) {
  if let Some(c) = ctx_even_if_panicking() {
    let mut st = c.exec.lock();
    *st.counters.entry(name).or_insert(0) += 1;
  }
}

/// block until no other task can run and no timer is pending; returns the task table
#[track_caller]
pub fn quiesce() -> Vec<TaskInfo> {
  let site = Location::caller();
  match ctx() {
    Some(c) => c.exec.quiesce(c.me, site),
    None => Vec::new(),
  }
}

/// snapshot of the task table (no scheduling point)
pub fn tasks() -> Vec<TaskInfo> {
  match ctx_even_if_panicking() {
    Some(c) => Exec::task_infos(&c.exec.lock()),
    None => Vec::new(),
  }
}

/// append a line to the trace (only kept when tracing)
pub fn note(s: impl FnOnce() -> String) {
  if let Some(c) = ctx_even_if_panicking() {
    let mut st = c.exec.lock();
    if st.cfg.trace {
      let line = format!("t{} note {}", c.me, s());
      st.trace.push(line);
    }
  }
}

//! Facade for `std::sync::mpsc`: an unbounded / bounded channel built from the facade's own
//! Mutex and Condvar, so that blocking in `recv` is a blocking point the scheduler sees (a real
//! channel would block the OS thread that holds the baton). Error types are std's.

pub use std::sync::mpsc::{RecvError, RecvTimeoutError, SendError, TryRecvError, TrySendError};

use crate::sync::{Condvar, Mutex};
use std::collections::VecDeque;
use std::sync::Arc;
use std::time::Duration;

struct Chan<T> {
  st: Mutex<St<T>>,
  not_empty: Condvar,
  not_full: Condvar,
}

struct St<T> {
  q: VecDeque<T>,
  senders: usize,
  receiver_alive: bool,
  bound: Option<usize>,
}

pub struct Sender<T>(Arc<Chan<T>>);
pub struct SyncSender<T>(Arc<Chan<T>>);
pub struct Receiver<T>(Arc<Chan<T>>);

fn mk<T>(bound: Option<usize>) -> Arc<Chan<T>> {
  Arc::new(Chan { st: Mutex::new(St { q: VecDeque::new(), senders: 1, receiver_alive: true, bound }), not_empty: Condvar::new(), not_full: Condvar::new() })
}

pub fn channel<T>() -> (Sender<T>, Receiver<T>) {
  let c = mk(None);
  (Sender(c.clone()), Receiver(c))
}

pub fn sync_channel<T>(bound: usize) -> (SyncSender<T>, Receiver<T>) {
  // a rendezvous channel (bound 0) is approximated by capacity 1
  let c = mk(Some(bound.max(1)));
  (SyncSender(c.clone()), Receiver(c))
}

fn lock<T>(c: &Chan<T>) -> crate::sync::MutexGuard<'_, St<T>> {
  match c.st.lock() {
    Ok(g) => g,
    Err(p) => p.into_inner(),
  }
}

fn send_impl<T>(c: &Chan<T>, v: T) -> Result<(), SendError<T>> {
  let mut g = lock(c);
  loop {
    if !g.receiver_alive {
      return Err(SendError(v));
    }
    match g.bound {
      Some(b) if g.q.len() >= b => {
        g = match c.not_full.wait(g) {
          Ok(g) => g,
          Err(p) => p.into_inner(),
        };
      }
      _ => break,
    }
  }
  g.q.push_back(v);
  drop(g);
  c.not_empty.notify_one();
  Ok(())
}

impl<T> Sender<T> {
  pub fn send(&self, v: T) -> Result<(), SendError<T>> {
    send_impl(&self.0, v)
  }
}

impl<T> SyncSender<T> {
  pub fn send(&self, v: T) -> Result<(), SendError<T>> {
    send_impl(&self.0, v)
  }
  pub fn try_send(&self, v: T) -> Result<(), TrySendError<T>> {
    let mut g = lock(&self.0);
    if !g.receiver_alive {
      return Err(TrySendError::Disconnected(v));
    }
    if let Some(b) = g.bound {
      if g.q.len() >= b {
        return Err(TrySendError::Full(v));
      }
    }
    g.q.push_back(v);
    drop(g);
    self.0.not_empty.notify_one();
    Ok(())
  }
}

macro_rules! sender_common {
  ($name:ident) => {
    impl<T> Clone for $name<T> {
      fn clone(&self) -> Self {
        lock(&self.0).senders += 1;
        $name(self.0.clone())
      }
    }
    impl<T> Drop for $name<T> {
      fn drop(&mut self) {
        let last = {
          let mut g = lock(&self.0);
          g.senders -= 1;
          g.senders == 0
        };
        if last {
          self.0.not_empty.notify_all();
        }
      }
    }
    impl<T> std::fmt::Debug for $name<T> {
      fn fmt(&self, f: &mut std::fmt::Formatter<'_>) -> std::fmt::Result {
        f.write_str(concat!(stringify!($name), " { .. }"))
      }
    }
  };
}
sender_common!(Sender);
sender_common!(SyncSender);

impl<T> Receiver<T> {
  pub fn try_recv(&self) -> Result<T, TryRecvError> {
    let mut g = lock(&self.0);
    match g.q.pop_front() {
      Some(v) => {
        drop(g);
        self.0.not_full.notify_one();
        Ok(v)
      }
      None if g.senders == 0 => Err(TryRecvError::Disconnected),
      None => Err(TryRecvError::Empty),
    }
  }
  pub fn recv(&self) -> Result<T, RecvError> {
    let mut g = lock(&self.0);
    loop {
      if let Some(v) = g.q.pop_front() {
        drop(g);
        self.0.not_full.notify_one();
        return Ok(v);
      }
      if g.senders == 0 {
        return Err(RecvError);
      }
      g = match self.0.not_empty.wait(g) {
        Ok(g) => g,
        Err(p) => p.into_inner(),
      };
    }
  }
  pub fn recv_timeout(&self, dur: Duration) -> Result<T, RecvTimeoutError> {
    let deadline = crate::time::Instant::now() + dur;
    let mut g = lock(&self.0);
    loop {
      if let Some(v) = g.q.pop_front() {
        drop(g);
        self.0.not_full.notify_one();
        return Ok(v);
      }
      if g.senders == 0 {
        return Err(RecvTimeoutError::Disconnected);
      }
      let now = crate::time::Instant::now();
      if now >= deadline {
        return Err(RecvTimeoutError::Timeout);
      }
      g = match self.0.not_empty.wait_timeout(g, deadline - now) {
        Ok((g, _)) => g,
        Err(p) => p.into_inner().0,
      };
    }
  }
  pub fn iter(&self) -> Iter<'_, T> {
    Iter(self)
  }
  pub fn try_iter(&self) -> TryIter<'_, T> {
    TryIter(self)
  }
}

impl<T> Drop for Receiver<T> {
  fn drop(&mut self) {
    let mut g = lock(&self.0);
    g.receiver_alive = false;
    g.q.clear();
    drop(g);
    self.0.not_full.notify_all();
  }
}

impl<T> std::fmt::Debug for Receiver<T> {
  fn fmt(&self, f: &mut std::fmt::Formatter<'_>) -> std::fmt::Result {
    f.write_str("Receiver { .. }")
  }
}

pub struct Iter<'a, T>(&'a Receiver<T>);
impl<'a, T> Iterator for Iter<'a, T> {
  type Item = T;
  fn next(&mut self) -> Option<T> {
    self.0.recv().ok()
  }
}
pub struct TryIter<'a, T>(&'a Receiver<T>);
impl<'a, T> Iterator for TryIter<'a, T> {
  type Item = T;
  fn next(&mut self) -> Option<T> {
    self.0.try_recv().ok()
  }
}
pub struct IntoIter<T>(Receiver<T>);
impl<T> Iterator for IntoIter<T> {
  type Item = T;
  fn next(&mut self) -> Option<T> {
    self.0.recv().ok()
  }
}
impl<T> IntoIterator for Receiver<T> {
  type Item = T;
  type IntoIter = IntoIter<T>;
  fn into_iter(self) -> IntoIter<T> {
    IntoIter(self)
  }
}
impl<'a, T> IntoIterator for &'a Receiver<T> {
  type Item = T;
  type IntoIter = Iter<'a, T>;
  fn into_iter(self) -> Iter<'a, T> {
    Iter(self)
  }
}

//! Reusable OS threads for simulated tasks: creating a thread per task costs an mmap/munmap
//! pair under the process-wide mm lock, which serialises parallel runs. Threads are parked
//! between runs instead.

use std::sync::{Arc, Condvar, Mutex};

type Job = Box<dyn FnOnce() + Send + 'static>;

struct Slot {
  job: Mutex<Option<Job>>,
  cv: Condvar,
}

static IDLE: Mutex<Vec<Arc<Slot>>> = Mutex::new(Vec::new());

pub(crate) fn execute(job: Job) {
  let slot = IDLE.lock().unwrap_or_else(|e| e.into_inner()).pop();
  match slot {
    Some(s) => {
      *s.job.lock().unwrap_or_else(|e| e.into_inner()) = Some(job);
      s.cv.notify_one();
    }
    None => {
      let s = Arc::new(Slot { job: Mutex::new(Some(job)), cv: Condvar::new() });
      std::thread::Builder::new()
        .name("sim-task".into())
        .stack_size(64 << 20)
        .spawn(move || loop {
          let job = {
            let mut g = s.job.lock().unwrap_or_else(|e| e.into_inner());
            loop {
              if let Some(j) = g.take() {
                break j;
              }
              g = s.cv.wait(g).unwrap_or_else(|e| e.into_inner());
            }
          };
          job();
          IDLE.lock().unwrap_or_else(|e| e.into_inner()).push(s.clone());
        })
        .expect("cannot spawn OS thread for a simulated task");
    }
  }
}

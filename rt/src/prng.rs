//! SplitMix64 / xoshiro256** - the only source of randomness of a run.

#[derive(Clone, Debug)]
pub struct Rng {
  s: [u64; 4],
}

pub fn splitmix(x: &mut u64) -> u64 {
  *x = x.wrapping_add(0x9E37_79B9_7F4A_7C15);
  let mut z = *x;
  z = (z ^ (z >> 30)).wrapping_mul(0xBF58_476D_1CE4_E5B9);
  z = (z ^ (z >> 27)).wrapping_mul(0x94D0_49BB_1331_11EB);
  z ^ (z >> 31)
}

pub fn hash_str(s: &str) -> u64 {
  let mut h: u64 = 0xcbf2_9ce4_8422_2325;
  for b in s.bytes() {
    h ^= b as u64;
    h = h.wrapping_mul(0x0000_0100_0000_01B3);
  }
  h
}

impl Rng {
  pub fn new(seed: u64) -> Rng {
    let mut x = seed;
    let s = [
      splitmix(&mut x),
      splitmix(&mut x),
      splitmix(&mut x),
      splitmix(&mut x),
    ];
    Rng { s }
  }
  /// independent stream derived from (seed, name)
  pub fn stream(seed: u64, name: &str) -> Rng {
    let mut x = seed ^ hash_str(name).rotate_left(17);
    let a = splitmix(&mut x);
    Rng::new(a ^ hash_str(name))
  }
  pub fn next_u64(&mut self) -> u64 {
    let r = self.s[1].wrapping_mul(5).rotate_left(7).wrapping_mul(9);
    let t = self.s[1] << 17;
    self.s[2] ^= self.s[0];
    self.s[3] ^= self.s[1];
    self.s[1] ^= self.s[2];
    self.s[0] ^= self.s[3];
    self.s[2] ^= t;
    self.s[3] = self.s[3].rotate_left(45);
    r
  }
  /// uniform in 0..n (n > 0)
  pub fn below(&mut self, n: u64) -> u64 {
    debug_assert!(n > 0);
    // multiply-shift; bias negligible for the small n used here
    ((self.next_u64() as u128 * n as u128) >> 64) as u64
  }
  pub fn range(&mut self, lo: u64, hi_incl: u64) -> u64 {
    lo + self.below(hi_incl - lo + 1)
  }
  pub fn chance(&mut self, permille: u32) -> bool {
    self.below(1000) < permille as u64
  }
  pub fn pick<'a, T>(&mut self, xs: &'a [T]) -> &'a T {
    &xs[self.below(xs.len() as u64) as usize]
  }
}

//! Facade for `std::sync::{RwLock, Mutex, Condvar}`.
//!
//! Outside a run every type behaves exactly like the std type it wraps. Inside a run the
//! runtime's lock table decides admission; once admitted the task takes the inner std lock,
//! which is uncontended by construction.

use crate::exec::{ctx, ctx_even_if_panicking, Ctx, Exec, State};
use std::fmt;
use std::ops::{Deref, DerefMut};
use std::panic::Location;
use std::sync::atomic::{AtomicU64, Ordering};
pub use std::sync::{LockResult, PoisonError, TryLockError, TryLockResult};
use std::time::Duration;

/// identity of a lock / condvar inside the current execution, assigned on first use
pub(crate) struct SimId(AtomicU64);

impl SimId {
  pub(crate) const fn new() -> SimId {
    SimId(AtomicU64::new(0))
  }
  pub(crate) fn resolve(&self, exec: &Exec, st: &mut State, mk: impl FnOnce(&mut State) -> usize) -> usize {
    let v = self.0.load(Ordering::Relaxed);
    if (v >> 32) as u32 == exec.serial {
      return (v & 0xffff_ffff) as usize;
    }
    let id = mk(st);
    self.0.store(((exec.serial as u64) << 32) | id as u64, Ordering::Relaxed);
    id
  }
}

struct Hold {
  ctx: Ctx,
  lock: usize,
  write: bool,
}

impl Hold {
  fn release(self) {
    self.ctx.exec.release(self.ctx.me, self.lock, self.write);
  }
}

fn live_ctx() -> Option<Ctx> {
  ctx()
}

// ============================================================================ RwLock

pub struct RwLock<T: ?Sized> {
  id: SimId,
  inner: std::sync::RwLock<T>,
}

pub struct RwLockReadGuard<'a, T: ?Sized + 'a> {
  inner: Option<std::sync::RwLockReadGuard<'a, T>>,
  hold: Option<Hold>,
}

pub struct RwLockWriteGuard<'a, T: ?Sized + 'a> {
  inner: Option<std::sync::RwLockWriteGuard<'a, T>>,
  hold: Option<Hold>,
}

impl<T> RwLock<T> {
  pub const fn new(t: T) -> RwLock<T> {
    RwLock { id: SimId::new(), inner: std::sync::RwLock::new(t) }
  }
  pub fn into_inner(self) -> LockResult<T> {
    self.inner.into_inner()
  }
}

impl<T: ?Sized> RwLock<T> {
  #[track_caller]
  pub fn read(&self) -> LockResult<RwLockReadGuard<'_, T>> {
    let site = Location::caller();
    let hold = live_ctx().map(|c| {
      let lock = c.exec.acquire(c.me, |st| self.id.resolve(&c.exec, st, |st| Exec::new_lock(st, false)), false, site);
      Hold { ctx: c, lock, write: false }
    });
    let lenient = hold.is_none() && ctx_even_if_panicking().is_some();
    match self.inner.read() {
      Ok(g) => Ok(RwLockReadGuard { inner: Some(g), hold }),
      Err(e) => {
        let g = RwLockReadGuard { inner: Some(e.into_inner()), hold };
        if lenient {
          Ok(g)
        } else {
          Err(PoisonError::new(g))
        }
      }
    }
  }

  #[track_caller]
  pub fn write(&self) -> LockResult<RwLockWriteGuard<'_, T>> {
    let site = Location::caller();
    let hold = live_ctx().map(|c| {
      let lock = c.exec.acquire(c.me, |st| self.id.resolve(&c.exec, st, |st| Exec::new_lock(st, false)), true, site);
      Hold { ctx: c, lock, write: true }
    });
    let lenient = hold.is_none() && ctx_even_if_panicking().is_some();
    match self.inner.write() {
      Ok(g) => Ok(RwLockWriteGuard { inner: Some(g), hold }),
      Err(e) => {
        let g = RwLockWriteGuard { inner: Some(e.into_inner()), hold };
        if lenient {
          Ok(g)
        } else {
          Err(PoisonError::new(g))
        }
      }
    }
  }

  #[track_caller]
  pub fn try_read(&self) -> TryLockResult<RwLockReadGuard<'_, T>> {
    let site = Location::caller();
    let mut hold = None;
    if let Some(c) = live_ctx() {
      match c.exec.try_acquire(c.me, |st| self.id.resolve(&c.exec, st, |st| Exec::new_lock(st, false)), false, site) {
        Some(lock) => hold = Some(Hold { ctx: c, lock, write: false }),
        None => return Err(TryLockError::WouldBlock),
      }
    }
    match self.inner.try_read() {
      Ok(g) => Ok(RwLockReadGuard { inner: Some(g), hold }),
      Err(TryLockError::Poisoned(e)) => {
        Err(TryLockError::Poisoned(PoisonError::new(RwLockReadGuard { inner: Some(e.into_inner()), hold })))
      }
      Err(TryLockError::WouldBlock) => {
        if let Some(h) = hold {
          h.release();
        }
        Err(TryLockError::WouldBlock)
      }
    }
  }

  #[track_caller]
  pub fn try_write(&self) -> TryLockResult<RwLockWriteGuard<'_, T>> {
    let site = Location::caller();
    let mut hold = None;
    if let Some(c) = live_ctx() {
      match c.exec.try_acquire(c.me, |st| self.id.resolve(&c.exec, st, |st| Exec::new_lock(st, false)), true, site) {
        Some(lock) => hold = Some(Hold { ctx: c, lock, write: true }),
        None => return Err(TryLockError::WouldBlock),
      }
    }
    match self.inner.try_write() {
      Ok(g) => Ok(RwLockWriteGuard { inner: Some(g), hold }),
      Err(TryLockError::Poisoned(e)) => {
        Err(TryLockError::Poisoned(PoisonError::new(RwLockWriteGuard { inner: Some(e.into_inner()), hold })))
      }
      Err(TryLockError::WouldBlock) => {
        if let Some(h) = hold {
          h.release();
        }
        Err(TryLockError::WouldBlock)
      }
    }
  }

  pub fn is_poisoned(&self) -> bool {
    self.inner.is_poisoned()
  }
  pub fn get_mut(&mut self) -> LockResult<&mut T> {
    self.inner.get_mut()
  }
}

impl<T: Default> Default for RwLock<T> {
  fn default() -> Self {
    RwLock::new(T::default())
  }
}
impl<T> From<T> for RwLock<T> {
  fn from(t: T) -> Self {
    RwLock::new(t)
  }
}
impl<T: ?Sized + fmt::Debug> fmt::Debug for RwLock<T> {
  fn fmt(&self, f: &mut fmt::Formatter<'_>) -> fmt::Result {
    f.write_str("RwLock(..)")
  }
}

impl<'a, T: ?Sized> Deref for RwLockReadGuard<'a, T> {
  type Target = T;
  fn deref(&self) -> &T {
    self.inner.as_ref().unwrap()
  }
}
impl<'a, T: ?Sized> Deref for RwLockWriteGuard<'a, T> {
  type Target = T;
  fn deref(&self) -> &T {
    self.inner.as_ref().unwrap()
  }
}
impl<'a, T: ?Sized> DerefMut for RwLockWriteGuard<'a, T> {
  fn deref_mut(&mut self) -> &mut T {
    self.inner.as_mut().unwrap()
  }
}
impl<'a, T: ?Sized> Drop for RwLockReadGuard<'a, T> {
  fn drop(&mut self) {
    self.inner.take();
    if let Some(h) = self.hold.take() {
      h.release();
    }
  }
}
impl<'a, T: ?Sized> Drop for RwLockWriteGuard<'a, T> {
  fn drop(&mut self) {
    self.inner.take();
    if let Some(h) = self.hold.take() {
      h.release();
    }
  }
}
impl<'a, T: ?Sized + fmt::Debug> fmt::Debug for RwLockReadGuard<'a, T> {
  fn fmt(&self, f: &mut fmt::Formatter<'_>) -> fmt::Result {
    (**self).fmt(f)
  }
}
impl<'a, T: ?Sized + fmt::Debug> fmt::Debug for RwLockWriteGuard<'a, T> {
  fn fmt(&self, f: &mut fmt::Formatter<'_>) -> fmt::Result {
    (**self).fmt(f)
  }
}

// ============================================================================ Mutex

pub struct Mutex<T: ?Sized> {
  id: SimId,
  inner: std::sync::Mutex<T>,
}

pub struct MutexGuard<'a, T: ?Sized + 'a> {
  mutex: &'a Mutex<T>,
  inner: Option<std::sync::MutexGuard<'a, T>>,
  hold: Option<Hold>,
}

impl<T> Mutex<T> {
  pub const fn new(t: T) -> Mutex<T> {
    Mutex { id: SimId::new(), inner: std::sync::Mutex::new(t) }
  }
  pub fn into_inner(self) -> LockResult<T> {
    self.inner.into_inner()
  }
}

impl<T: ?Sized> Mutex<T> {
  fn wrap<'a>(&'a self, r: LockResult<std::sync::MutexGuard<'a, T>>, hold: Option<Hold>) -> LockResult<MutexGuard<'a, T>> {
    let lenient = hold.is_none() && ctx_even_if_panicking().is_some();
    match r {
      Ok(g) => Ok(MutexGuard { mutex: self, inner: Some(g), hold }),
      Err(e) => {
        let g = MutexGuard { mutex: self, inner: Some(e.into_inner()), hold };
        if lenient {
          Ok(g)
        } else {
          Err(PoisonError::new(g))
        }
      }
    }
  }

  #[track_caller]
  pub fn lock(&self) -> LockResult<MutexGuard<'_, T>> {
    let site = Location::caller();
    let hold = live_ctx().map(|c| {
      let lock = c.exec.acquire(c.me, |st| self.id.resolve(&c.exec, st, |st| Exec::new_lock(st, true)), true, site);
      Hold { ctx: c, lock, write: true }
    });
    self.wrap(self.inner.lock(), hold)
  }

  #[track_caller]
  pub fn try_lock(&self) -> TryLockResult<MutexGuard<'_, T>> {
    let site = Location::caller();
    let mut hold = None;
    if let Some(c) = live_ctx() {
      match c.exec.try_acquire(c.me, |st| self.id.resolve(&c.exec, st, |st| Exec::new_lock(st, true)), true, site) {
        Some(lock) => hold = Some(Hold { ctx: c, lock, write: true }),
        None => return Err(TryLockError::WouldBlock),
      }
    }
    match self.inner.try_lock() {
      Ok(g) => Ok(MutexGuard { mutex: self, inner: Some(g), hold }),
      Err(TryLockError::Poisoned(e)) => {
        Err(TryLockError::Poisoned(PoisonError::new(MutexGuard { mutex: self, inner: Some(e.into_inner()), hold })))
      }
      Err(TryLockError::WouldBlock) => {
        if let Some(h) = hold {
          h.release();
        }
        Err(TryLockError::WouldBlock)
      }
    }
  }

  pub fn is_poisoned(&self) -> bool {
    self.inner.is_poisoned()
  }
  pub fn get_mut(&mut self) -> LockResult<&mut T> {
    self.inner.get_mut()
  }
}

impl<T: Default> Default for Mutex<T> {
  fn default() -> Self {
    Mutex::new(T::default())
  }
}
impl<T> From<T> for Mutex<T> {
  fn from(t: T) -> Self {
    Mutex::new(t)
  }
}
impl<T: ?Sized + fmt::Debug> fmt::Debug for Mutex<T> {
  fn fmt(&self, f: &mut fmt::Formatter<'_>) -> fmt::Result {
    f.write_str("Mutex(..)")
  }
}
impl<'a, T: ?Sized> Deref for MutexGuard<'a, T> {
  type Target = T;
  fn deref(&self) -> &T {
    self.inner.as_ref().unwrap()
  }
}
impl<'a, T: ?Sized> DerefMut for MutexGuard<'a, T> {
  fn deref_mut(&mut self) -> &mut T {
    self.inner.as_mut().unwrap()
  }
}
impl<'a, T: ?Sized> Drop for MutexGuard<'a, T> {
  fn drop(&mut self) {
    self.inner.take();
    if let Some(h) = self.hold.take() {
      h.release();
    }
  }
}
impl<'a, T: ?Sized + fmt::Debug> fmt::Debug for MutexGuard<'a, T> {
  fn fmt(&self, f: &mut fmt::Formatter<'_>) -> fmt::Result {
    (**self).fmt(f)
  }
}

// ============================================================================ Condvar

pub struct Condvar {
  id: SimId,
  inner: std::sync::Condvar,
}

#[derive(Clone, Copy, Debug, PartialEq, Eq)]
pub struct WaitTimeoutResult(bool);
impl WaitTimeoutResult {
  pub fn timed_out(&self) -> bool {
    self.0
  }
}

impl Condvar {
  pub const fn new() -> Condvar {
    Condvar { id: SimId::new(), inner: std::sync::Condvar::new() }
  }

  fn sim_wait<'a, T: ?Sized>(
    &self,
    mut guard: MutexGuard<'a, T>,
    timeout: Option<Duration>,
    site: &'static Location<'static>,
  ) -> Result<(LockResult<MutexGuard<'a, T>>, bool), MutexGuard<'a, T>> {
    // only when the guard was taken inside the live run
    let hold = match guard.hold.take() {
      Some(h) => h,
      None => return Err(guard),
    };
    if live_ctx().is_none() {
      guard.hold = Some(hold);
      return Err(guard);
    }
    let mutex = guard.mutex;
    guard.inner.take(); // release the real mutex
    drop(guard);
    let c = hold.ctx.clone();
    let cv = {
      let mut st = c.exec.lock();
      self.id.resolve(&c.exec, &mut st, Exec::new_cv)
    };
    let timed_out = c.exec.cv_wait(c.me, cv, hold.lock, timeout.map(|d| d.as_nanos().min(u64::MAX as u128) as u64), site);
    // the lock table has re-granted the mutex to this task
    Ok((mutex.wrap(mutex.inner.lock(), Some(hold)), timed_out))
  }

  #[track_caller]
  pub fn wait<'a, T>(&self, guard: MutexGuard<'a, T>) -> LockResult<MutexGuard<'a, T>> {
    let site = Location::caller();
    match self.sim_wait(guard, None, site) {
      Ok((r, _)) => r,
      Err(mut guard) => {
        let mutex = guard.mutex;
        let inner = guard.inner.take().unwrap();
        let hold = guard.hold.take();
        drop(guard);
        mutex.wrap(self.inner.wait(inner), hold)
      }
    }
  }

  #[track_caller]
  pub fn wait_while<'a, T, F>(&self, mut guard: MutexGuard<'a, T>, mut condition: F) -> LockResult<MutexGuard<'a, T>>
  where
    F: FnMut(&mut T) -> bool,
  {
    while condition(&mut *guard) {
      guard = self.wait(guard)?;
    }
    Ok(guard)
  }

  #[track_caller]
  pub fn wait_timeout<'a, T>(&self, guard: MutexGuard<'a, T>, dur: Duration) -> LockResult<(MutexGuard<'a, T>, WaitTimeoutResult)> {
    let site = Location::caller();
    match self.sim_wait(guard, Some(dur), site) {
      Ok((r, to)) => match r {
        Ok(g) => Ok((g, WaitTimeoutResult(to))),
        Err(e) => Err(PoisonError::new((e.into_inner(), WaitTimeoutResult(to)))),
      },
      Err(mut guard) => {
        let mutex = guard.mutex;
        let inner = guard.inner.take().unwrap();
        let hold = guard.hold.take();
        drop(guard);
        match self.inner.wait_timeout(inner, dur) {
          Ok((g, r)) => Ok((MutexGuard { mutex, inner: Some(g), hold }, WaitTimeoutResult(r.timed_out()))),
          Err(e) => {
            let (g, r) = e.into_inner();
            Err(PoisonError::new((MutexGuard { mutex, inner: Some(g), hold }, WaitTimeoutResult(r.timed_out()))))
          }
        }
      }
    }
  }

  #[track_caller]
  pub fn wait_timeout_while<'a, T, F>(
    &self,
    mut guard: MutexGuard<'a, T>,
    dur: Duration,
    mut condition: F,
  ) -> LockResult<(MutexGuard<'a, T>, WaitTimeoutResult)>
  where
    F: FnMut(&mut T) -> bool,
  {
    let start = crate::time::Instant::now();
    loop {
      if !condition(&mut *guard) {
        return Ok((guard, WaitTimeoutResult(false)));
      }
      let el = start.elapsed();
      if el >= dur {
        return Ok((guard, WaitTimeoutResult(true)));
      }
      guard = self.wait_timeout(guard, dur - el)?.0;
    }
  }

  #[track_caller]
  pub fn notify_one(&self) {
    let site = Location::caller();
    if let Some(c) = live_ctx() {
      let cv = {
        let mut st = c.exec.lock();
        self.id.resolve(&c.exec, &mut st, Exec::new_cv)
      };
      c.exec.cv_notify(c.me, cv, false, site);
    }
    self.inner.notify_one();
  }

  #[track_caller]
  pub fn notify_all(&self) {
    let site = Location::caller();
    if let Some(c) = live_ctx() {
      let cv = {
        let mut st = c.exec.lock();
        self.id.resolve(&c.exec, &mut st, Exec::new_cv)
      };
      c.exec.cv_notify(c.me, cv, true, site);
    }
    self.inner.notify_all();
  }
}

impl Default for Condvar {
  fn default() -> Self {
    Condvar::new()
  }
}
impl fmt::Debug for Condvar {
  fn fmt(&self, f: &mut fmt::Formatter<'_>) -> fmt::Result {
    f.write_str("Condvar(..)")
  }
}


// ---- Once / OnceLock -------------------------------------------------------------------------

/// Facade for `std::sync::Once`: the initialisation runs under a facade mutex, so that a second
/// caller blocks at a point the scheduler sees, and a recursive `call_once` from inside the
/// closure - which std documents as a deadlock - is reported as a self-deadlock of the run instead
/// of blocking the OS thread.
pub struct Once {
  m: Mutex<()>,
  done: std::sync::atomic::AtomicBool,
}

impl Once {
  pub const fn new() -> Once {
    Once { m: Mutex::new(()), done: std::sync::atomic::AtomicBool::new(false) }
  }
  #[track_caller]
  pub fn call_once<F: FnOnce()>(&self, f: F) {
    if self.done.load(std::sync::atomic::Ordering::Acquire) {
      return;
    }
    let _g = match self.m.lock() {
      Ok(g) => g,
      Err(p) => p.into_inner(),
    };
    if !self.done.load(std::sync::atomic::Ordering::Acquire) {
      f();
      self.done.store(true, std::sync::atomic::Ordering::Release);
    }
  }
  pub fn is_completed(&self) -> bool {
    self.done.load(std::sync::atomic::Ordering::Acquire)
  }
}

impl Default for Once {
  fn default() -> Once {
    Once::new()
  }
}

impl fmt::Debug for Once {
  fn fmt(&self, f: &mut fmt::Formatter<'_>) -> fmt::Result {
    f.write_str("Once { .. }")
  }
}

/// Facade for `std::sync::OnceLock` (same idea: the initialiser runs under a facade mutex)
pub struct OnceLock<T> {
  m: Mutex<()>,
  cell: std::sync::OnceLock<T>,
}

impl<T> OnceLock<T> {
  pub const fn new() -> OnceLock<T> {
    OnceLock { m: Mutex::new(()), cell: std::sync::OnceLock::new() }
  }
  pub fn get(&self) -> Option<&T> {
    self.cell.get()
  }
  pub fn set(&self, value: T) -> Result<(), T> {
    let _g = match self.m.lock() {
      Ok(g) => g,
      Err(p) => p.into_inner(),
    };
    self.cell.set(value)
  }
  #[track_caller]
  pub fn get_or_init<F: FnOnce() -> T>(&self, f: F) -> &T {
    if let Some(v) = self.cell.get() {
      return v;
    }
    let _g = match self.m.lock() {
      Ok(g) => g,
      Err(p) => p.into_inner(),
    };
    self.cell.get_or_init(f)
  }
  pub fn into_inner(self) -> Option<T> {
    self.cell.into_inner()
  }
}

impl<T> Default for OnceLock<T> {
  fn default() -> OnceLock<T> {
    OnceLock::new()
  }
}

impl<T: fmt::Debug> fmt::Debug for OnceLock<T> {
  fn fmt(&self, f: &mut fmt::Formatter<'_>) -> fmt::Result {
    self.cell.fmt(f)
  }
}

//! Facade for `std::thread::{spawn, sleep, yield_now, JoinHandle, Builder}`.

use crate::exec::{ctx, set_ctx, Ctx, Origin};
use std::panic::{catch_unwind, AssertUnwindSafe, Location};
use std::sync::{Arc, Mutex as StdMutex};
use std::time::Duration;

enum Inner<T> {
  Real(std::thread::JoinHandle<T>),
  Sim { ctx: Ctx, task: usize, slot: Arc<StdMutex<Option<std::thread::Result<T>>>> },
}

pub struct JoinHandle<T>(Inner<T>);

impl<T> JoinHandle<T> {
  #[track_caller]
  pub fn join(self) -> std::thread::Result<T> {
    let site = Location::caller();
    match self.0 {
      Inner::Real(h) => h.join(),
      Inner::Sim { ctx: c, task, slot } => {
        if let Some(me) = ctx() {
          me.exec.join(me.me, task, site);
        }
        let _ = c;
        let r = slot.lock().unwrap().take();
        match r {
          Some(r) => r,
          None => Err(Box::new("task did not produce a result (run aborted)")),
        }
      }
    }
  }
  pub fn is_finished(&self) -> bool {
    match &self.0 {
      Inner::Real(h) => h.is_finished(),
      Inner::Sim { slot, .. } => slot.lock().unwrap().is_some(),
    }
  }
  /// task id inside the run (None for a real thread)
  pub fn task_id(&self) -> Option<usize> {
    match &self.0 {
      Inner::Real(_) => None,
      Inner::Sim { task, .. } => Some(*task),
    }
  }
}

pub(crate) fn spawn_in(c: Ctx, name: String, origin: Origin, site: &'static Location<'static>, f: Box<dyn FnOnce() + Send + 'static>) -> usize {
  let (task, cv) = c.exec.add_task(name, origin);
  let exec = c.exec.clone();
  crate::pool::execute(Box::new(move || {
    set_ctx(Some(Ctx { exec: exec.clone(), me: task, cv: cv.clone() }));
    if exec.wait_first_baton(task, &cv) {
      let r = catch_unwind(AssertUnwindSafe(f));
      exec.task_exit(task, r.err(), true);
    } else {
      // the run ended before this task ever ran; dropping its closure may run destructors
      let _ = catch_unwind(AssertUnwindSafe(move || drop(f)));
      exec.task_exit(task, Some(Box::new(crate::exec::AbortRun)), true);
    }
    set_ctx(None);
  }));
  // scheduling point after spawn
  c.exec.yield_point(c.me, "spawn", site);
  task
}

fn spawn_sim<F, T>(c: Ctx, name: String, origin: Origin, site: &'static Location<'static>, f: F) -> JoinHandle<T>
where
  F: FnOnce() -> T + Send + 'static,
  T: Send + 'static,
{
  let slot: Arc<StdMutex<Option<std::thread::Result<T>>>> = Arc::new(StdMutex::new(None));
  let slot2 = slot.clone();
  let body = Box::new(move || {
    let v = f();
    *slot2.lock().unwrap() = Some(Ok(v));
  });
  let task = spawn_in(c.clone(), name, origin, site, body);
  JoinHandle(Inner::Sim { ctx: c, task, slot })
}

#[track_caller]
pub fn spawn<F, T>(f: F) -> JoinHandle<T>
where
  F: FnOnce() -> T + Send + 'static,
  T: Send + 'static,
{
  let site = Location::caller();
  match ctx() {
    Some(c) => spawn_sim(c, format!("lib@{}:{}", short(site.file()), site.line()), Origin::Library, site, f),
    None => JoinHandle(Inner::Real(std::thread::spawn(f))),
  }
}

/// spawn a task that belongs to the harness (scripted source, caller thread)
#[track_caller]
pub fn spawn_harness<F, T>(name: &str, f: F) -> JoinHandle<T>
where
  F: FnOnce() -> T + Send + 'static,
  T: Send + 'static,
{
  let site = Location::caller();
  match ctx() {
    Some(c) => spawn_sim(c, name.to_string(), Origin::Harness, site, f),
    None => JoinHandle(Inner::Real(std::thread::spawn(f))),
  }
}

fn short(f: &str) -> &str {
  match f.find("/src/") {
    Some(i) => &f[i + 5..],
    None => f,
  }
}

#[track_caller]
pub fn sleep(dur: Duration) {
  let site = Location::caller();
  match ctx() {
    Some(c) => c.exec.sleep(c.me, dur.as_nanos().min(u64::MAX as u128) as u64, site),
    None => {
      // unwinding task of a finished run: never really sleep
      if crate::exec::ctx_even_if_panicking().is_none() {
        std::thread::sleep(dur)
      }
    }
  }
}

#[track_caller]
pub fn yield_now() {
  let site = Location::caller();
  match ctx() {
    Some(c) => c.exec.yield_point(c.me, "yield_now", site),
    None => std::thread::yield_now(),
  }
}

pub struct Builder {
  name: Option<String>,
  stack: Option<usize>,
}

impl Builder {
  pub fn new() -> Builder {
    Builder { name: None, stack: None }
  }
  pub fn name(mut self, name: String) -> Builder {
    self.name = Some(name);
    self
  }
  pub fn stack_size(mut self, size: usize) -> Builder {
    self.stack = Some(size);
    self
  }
  #[track_caller]
  pub fn spawn<F, T>(self, f: F) -> std::io::Result<JoinHandle<T>>
  where
    F: FnOnce() -> T + Send + 'static,
    T: Send + 'static,
  {
    let site = Location::caller();
    match ctx() {
      Some(c) => Ok(spawn_sim(
        c,
        self.name.unwrap_or_else(|| format!("lib@{}:{}", short(site.file()), site.line())),
        Origin::Library,
        site,
        f,
      )),
      None => {
        let mut b = std::thread::Builder::new();
        if let Some(n) = self.name {
          b = b.name(n);
        }
        if let Some(s) = self.stack {
          b = b.stack_size(s);
        }
        b.spawn(f).map(|h| JoinHandle(Inner::Real(h)))
      }
    }
  }
}

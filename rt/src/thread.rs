//! Facade for `std::thread::{spawn, sleep, yield_now, JoinHandle, Builder}`.

use crate::exec::{ctx, set_ctx, Ctx, Origin};
use std::panic::{catch_unwind, AssertUnwindSafe, Location};
use std::sync::{Arc, Mutex as StdMutex};
use std::time::Duration;

enum Inner<T> {
  Real(std::thread::JoinHandle<T>, Thread),
  Sim { ctx: Ctx, task: usize, slot: Arc<StdMutex<Option<std::thread::Result<T>>>>, thread: Thread },
}

pub struct JoinHandle<T>(Inner<T>);

// ---- thread identity and parking ------------------------------------------------------------

/// `std::thread::ThreadId` of a real thread, or (run, task) of a simulated one. OS threads are
/// reused between tasks, so a task's identity must not be the OS thread's.
#[derive(Clone, Copy, PartialEq, Eq, Hash, Debug)]
pub enum ThreadId {
  Real(std::thread::ThreadId),
  Sim(u32, usize),
}

struct Parker {
  token: crate::sync::Mutex<bool>,
  cv: crate::sync::Condvar,
}

#[derive(Clone)]
enum ThreadInner {
  Real(std::thread::Thread),
  Sim { run: u32, task: usize, name: Option<String>, parker: Arc<Parker> },
}

/// Facade for `std::thread::Thread` (handle: id, name, unpark)
#[derive(Clone)]
pub struct Thread(ThreadInner);

impl Thread {
  pub fn id(&self) -> ThreadId {
    match &self.0 {
      ThreadInner::Real(t) => ThreadId::Real(t.id()),
      ThreadInner::Sim { run, task, .. } => ThreadId::Sim(*run, *task),
    }
  }
  pub fn name(&self) -> Option<&str> {
    match &self.0 {
      ThreadInner::Real(t) => t.name(),
      ThreadInner::Sim { name, .. } => name.as_deref(),
    }
  }
  pub fn unpark(&self) {
    match &self.0 {
      ThreadInner::Real(t) => t.unpark(),
      ThreadInner::Sim { parker, .. } => {
        let mut g = match parker.token.lock() {
          Ok(g) => g,
          Err(p) => p.into_inner(),
        };
        *g = true;
        drop(g);
        parker.cv.notify_one();
      }
    }
  }
}

impl std::fmt::Debug for Thread {
  fn fmt(&self, f: &mut std::fmt::Formatter<'_>) -> std::fmt::Result {
    write!(f, "Thread({:?})", self.id())
  }
}

static PARKERS: StdMutex<Option<std::collections::HashMap<(u32, usize), Arc<Parker>>>> = StdMutex::new(None);

fn parker_of(run: u32, task: usize) -> Arc<Parker> {
  let mut g = PARKERS.lock().unwrap_or_else(|p| p.into_inner());
  let m = g.get_or_insert_with(std::collections::HashMap::new);
  // forget the parkers of earlier runs now and then
  if m.len() > 4096 {
    m.retain(|k, _| k.0 == run);
  }
  m.entry((run, task)).or_insert_with(|| Arc::new(Parker { token: crate::sync::Mutex::new(false), cv: crate::sync::Condvar::new() })).clone()
}

fn sim_thread(c: &Ctx, task: usize) -> Thread {
  let name = c.exec.lock().tasks.get(task).map(|t| t.name.clone());
  Thread(ThreadInner::Sim { run: c.exec.serial, task, name, parker: parker_of(c.exec.serial, task) })
}

/// Facade for `std::thread::current()`
pub fn current() -> Thread {
  match crate::exec::ctx_even_if_panicking() {
    Some(c) => sim_thread(&c, c.me),
    None => Thread(ThreadInner::Real(std::thread::current())),
  }
}

/// Facade for `std::thread::park()`: blocks until the token is set (spurious returns are allowed
/// by std's contract; here they come from the condvar's spurious-wake-up fault)
pub fn park() {
  match current().0 {
    ThreadInner::Real(_) => std::thread::park(),
    ThreadInner::Sim { parker, .. } => {
      let mut g = match parker.token.lock() {
        Ok(g) => g,
        Err(p) => p.into_inner(),
      };
      if !*g {
        g = match parker.cv.wait(g) {
          Ok(g) => g,
          Err(p) => p.into_inner(),
        };
      }
      *g = false;
    }
  }
}

pub fn park_timeout(dur: Duration) {
  match current().0 {
    ThreadInner::Real(_) => std::thread::park_timeout(dur),
    ThreadInner::Sim { parker, .. } => {
      let mut g = match parker.token.lock() {
        Ok(g) => g,
        Err(p) => p.into_inner(),
      };
      if !*g {
        g = match parker.cv.wait_timeout(g, dur) {
          Ok((g, _)) => g,
          Err(p) => p.into_inner().0,
        };
      }
      *g = false;
    }
  }
}

impl<T> JoinHandle<T> {
  #[track_caller]
  pub fn join(self) -> std::thread::Result<T> {
    let site = Location::caller();
    match self.0 {
      Inner::Real(h, _) => h.join(),
      Inner::Sim { ctx: c, task, slot, .. } => {
        if let Some(me) = ctx() {
          me.exec.join(me.me, task, site);
        }
        let _ = c;
        let r = slot.lock().unwrap().take();
        match r {
          Some(r) => r,
          None => Err(Box::new("task did not produce a result (run aborted)")),
        }
      }
    }
  }
  pub fn is_finished(&self) -> bool {
    match &self.0 {
      Inner::Real(h, _) => h.is_finished(),
      Inner::Sim { slot, .. } => slot.lock().unwrap().is_some(),
    }
  }
  pub fn thread(&self) -> &Thread {
    match &self.0 {
      Inner::Real(_, t) => t,
      Inner::Sim { thread, .. } => thread,
    }
  }
  /// task id inside the run (None for a real thread)
  pub fn task_id(&self) -> Option<usize> {
    match &self.0 {
      Inner::Real(..) => None,
      Inner::Sim { task, .. } => Some(*task),
    }
  }
}

pub(crate) fn spawn_in(c: Ctx, name: String, origin: Origin, site: &'static Location<'static>, f: Box<dyn FnOnce() + Send + 'static>) -> usize {
  let (task, cv) = c.exec.add_task(name, origin);
  let exec = c.exec.clone();
  crate::pool::execute(Box::new(move || {
    set_ctx(Some(Ctx { exec: exec.clone(), me: task, cv: cv.clone() }));
    if exec.wait_first_baton(task, &cv) {
      let r = catch_unwind(AssertUnwindSafe(f));
      exec.task_exit(task, r.err(), true);
    } else {
      // the run ended before this task ever ran; dropping its closure may run destructors
      let _ = catch_unwind(AssertUnwindSafe(move || drop(f)));
      exec.task_exit(task, Some(Box::new(crate::exec::AbortRun)), true);
    }
    set_ctx(None);
  }));
  // scheduling point after spawn
  c.exec.yield_point(c.me, "spawn", site);
  task
}

fn spawn_sim<F, T>(c: Ctx, name: String, origin: Origin, site: &'static Location<'static>, f: F) -> JoinHandle<T>
where
  F: FnOnce() -> T + Send + 'static,
  T: Send + 'static,
{
  let slot: Arc<StdMutex<Option<std::thread::Result<T>>>> = Arc::new(StdMutex::new(None));
  let slot2 = slot.clone();
  let body = Box::new(move || {
    let v = f();
    *slot2.lock().unwrap() = Some(Ok(v));
  });
  let task = spawn_in(c.clone(), name, origin, site, body);
  let thread = sim_thread(&c, task);
  JoinHandle(Inner::Sim { ctx: c, task, slot, thread })
}

#[track_caller]
pub fn spawn<F, T>(f: F) -> JoinHandle<T>
where
  F: FnOnce() -> T + Send + 'static,
  T: Send + 'static,
{
  let site = Location::caller();
  match ctx() {
    Some(c) => spawn_sim(c, format!("lib@{}:{}", short(site.file()), site.line()), Origin::Library, site, f),
    None => real_handle(std::thread::spawn(f)),
  }
}

/// spawn a task that belongs to the harness (scripted source, caller thread)
#[track_caller]
pub fn spawn_harness<F, T>(name: &str, f: F) -> JoinHandle<T>
where
  F: FnOnce() -> T + Send + 'static,
  T: Send + 'static,
{
  let site = Location::caller();
  match ctx() {
    Some(c) => spawn_sim(c, name.to_string(), Origin::Harness, site, f),
    None => real_handle(std::thread::spawn(f)),
  }
}

fn real_handle<T>(h: std::thread::JoinHandle<T>) -> JoinHandle<T> {
  let t = Thread(ThreadInner::Real(h.thread().clone()));
  JoinHandle(Inner::Real(h, t))
}

fn short(f: &str) -> &str {
  match f.find("/src/") {
    Some(i) => &f[i + 5..],
    None => f,
  }
}

#[track_caller]
pub fn sleep(dur: Duration) {
  let site = Location::caller();
  match ctx() {
    Some(c) => c.exec.sleep(c.me, dur.as_nanos().min(u64::MAX as u128) as u64, site),
    None => {
      // unwinding task of a finished run: never really sleep
      if crate::exec::ctx_even_if_panicking().is_none() {
        std::thread::sleep(dur)
      }
    }
  }
}

#[track_caller]
pub fn yield_now() {
  let site = Location::caller();
  match ctx() {
    Some(c) => c.exec.yield_point(c.me, "yield_now", site),
    None => std::thread::yield_now(),
  }
}

pub struct Builder {
  name: Option<String>,
  stack: Option<usize>,
}

impl Builder {
  pub fn new() -> Builder {
    Builder { name: None, stack: None }
  }
  pub fn name(mut self, name: String) -> Builder {
    self.name = Some(name);
    self
  }
  pub fn stack_size(mut self, size: usize) -> Builder {
    self.stack = Some(size);
    self
  }
  #[track_caller]
  pub fn spawn<F, T>(self, f: F) -> std::io::Result<JoinHandle<T>>
  where
    F: FnOnce() -> T + Send + 'static,
    T: Send + 'static,
  {
    let site = Location::caller();
    match ctx() {
      Some(c) => Ok(spawn_sim(
        c,
        self.name.unwrap_or_else(|| format!("lib@{}:{}", short(site.file()), site.line())),
        Origin::Library,
        site,
        f,
      )),
      None => {
        let mut b = std::thread::Builder::new();
        if let Some(n) = self.name {
          b = b.name(n);
        }
        if let Some(s) = self.stack {
          b = b.stack_size(s);
        }
        b.spawn(f).map(real_handle)
      }
    }
  }
}

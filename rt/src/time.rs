//! Facade for `std::time::{Instant, SystemTime, UNIX_EPOCH}` on the virtual clock.

use crate::exec::ctx_even_if_panicking;
use std::ops::{Add, AddAssign, Sub, SubAssign};
pub use std::time::Duration;

fn virt_now() -> Option<u64> {
  ctx_even_if_panicking().map(|c| c.exec.lock().now)
}

#[derive(Clone, Copy, Debug, PartialEq, Eq, PartialOrd, Ord, Hash)]
enum Rep {
  Real(std::time::Instant),
  Virt(u64),
}

#[derive(Clone, Copy, Debug, PartialEq, Eq, PartialOrd, Ord, Hash)]
pub struct Instant(Rep);

impl Instant {
  pub fn now() -> Instant {
    match virt_now() {
      Some(n) => Instant(Rep::Virt(n)),
      None => Instant(Rep::Real(std::time::Instant::now())),
    }
  }
  pub fn checked_duration_since(&self, earlier: Instant) -> Option<Duration> {
    match (self.0, earlier.0) {
      (Rep::Real(a), Rep::Real(b)) => a.checked_duration_since(b),
      (Rep::Virt(a), Rep::Virt(b)) => a.checked_sub(b).map(Duration::from_nanos),
      _ => Some(Duration::ZERO),
    }
  }
  pub fn duration_since(&self, earlier: Instant) -> Duration {
    self.checked_duration_since(earlier).unwrap_or_default()
  }
  pub fn saturating_duration_since(&self, earlier: Instant) -> Duration {
    self.checked_duration_since(earlier).unwrap_or_default()
  }
  pub fn elapsed(&self) -> Duration {
    Instant::now().duration_since(*self)
  }
  pub fn checked_add(&self, d: Duration) -> Option<Instant> {
    match self.0 {
      Rep::Real(a) => a.checked_add(d).map(|x| Instant(Rep::Real(x))),
      Rep::Virt(a) => u64::try_from(d.as_nanos()).ok().and_then(|n| a.checked_add(n)).map(|x| Instant(Rep::Virt(x))),
    }
  }
  pub fn checked_sub(&self, d: Duration) -> Option<Instant> {
    match self.0 {
      Rep::Real(a) => a.checked_sub(d).map(|x| Instant(Rep::Real(x))),
      Rep::Virt(a) => u64::try_from(d.as_nanos()).ok().and_then(|n| a.checked_sub(n)).map(|x| Instant(Rep::Virt(x))),
    }
  }
}
impl Add<Duration> for Instant {
  type Output = Instant;
  fn add(self, d: Duration) -> Instant {
    self.checked_add(d).expect("overflow when adding duration to instant")
  }
}
impl AddAssign<Duration> for Instant {
  fn add_assign(&mut self, d: Duration) {
    *self = *self + d;
  }
}
impl Sub<Duration> for Instant {
  type Output = Instant;
  fn sub(self, d: Duration) -> Instant {
    self.checked_sub(d).expect("overflow when subtracting duration from instant")
  }
}
impl SubAssign<Duration> for Instant {
  fn sub_assign(&mut self, d: Duration) {
    *self = *self - d;
  }
}
impl Sub<Instant> for Instant {
  type Output = Duration;
  fn sub(self, o: Instant) -> Duration {
    self.duration_since(o)
  }
}

/// virtual wall clock starts at this many seconds after the epoch
pub const VIRT_EPOCH_OFFSET_S: u64 = 1_700_000_000;

#[derive(Clone, Copy, Debug, PartialEq, Eq, PartialOrd, Ord, Hash)]
pub struct SystemTime(std::time::SystemTime);

pub const UNIX_EPOCH: SystemTime = SystemTime(std::time::UNIX_EPOCH);

pub use std::time::SystemTimeError;

impl SystemTime {
  pub const UNIX_EPOCH: SystemTime = UNIX_EPOCH;
  pub fn now() -> SystemTime {
    match virt_now() {
      Some(n) => SystemTime(std::time::UNIX_EPOCH + Duration::from_secs(VIRT_EPOCH_OFFSET_S) + Duration::from_nanos(n)),
      None => SystemTime(std::time::SystemTime::now()),
    }
  }
  pub fn duration_since(&self, earlier: SystemTime) -> Result<Duration, SystemTimeError> {
    self.0.duration_since(earlier.0)
  }
  pub fn elapsed(&self) -> Result<Duration, SystemTimeError> {
    SystemTime::now().duration_since(*self)
  }
  pub fn checked_add(&self, d: Duration) -> Option<SystemTime> {
    self.0.checked_add(d).map(SystemTime)
  }
  pub fn checked_sub(&self, d: Duration) -> Option<SystemTime> {
    self.0.checked_sub(d).map(SystemTime)
  }
}
impl Add<Duration> for SystemTime {
  type Output = SystemTime;
  fn add(self, d: Duration) -> SystemTime {
    SystemTime(self.0 + d)
  }
}
impl Sub<Duration> for SystemTime {
  type Output = SystemTime;
  fn sub(self, d: Duration) -> SystemTime {
    SystemTime(self.0 - d)
  }
}
impl AddAssign<Duration> for SystemTime {
  fn add_assign(&mut self, d: Duration) {
    self.0 += d;
  }
}
impl SubAssign<Duration> for SystemTime {
  fn sub_assign(&mut self, d: Duration) {
    self.0 -= d;
  }
}

use rxsim_rt::sync::{Condvar, Mutex, RwLock};
use rxsim_rt::*;
use std::sync::Arc;
use std::time::Duration;

#[test]
fn counter_two_threads() {
  let mut hashes = std::collections::BTreeSet::new();
  for seed in 0..200 {
    let total = Arc::new(std::sync::Mutex::new(0));
    let t2 = total.clone();
    let r = run(RunCfg::new(seed), move || {
      let m = Arc::new(Mutex::new(0));
      let hs: Vec<_> = (0..3)
        .map(|i| {
          let m = m.clone();
          spawn_harness(&format!("w{i}"), move || {
            for _ in 0..3 {
              *m.lock().unwrap() += 1;
            }
          })
        })
        .collect();
      for h in hs {
        h.join().unwrap();
      }
      *t2.lock().unwrap() = *m.lock().unwrap();
    });
    assert!(r.outcome.is_ok(), "{:?}", r.outcome);
    assert_eq!(*total.lock().unwrap(), 9);
    hashes.insert(r.trace_hash);
  }
  assert!(hashes.len() > 100, "distinct schedules {}", hashes.len());
}

#[test]
fn lost_update_found_and_replays() {
  // non-atomic read-modify-write across two lock sections
  let scenario = |out: Arc<std::sync::Mutex<i32>>| {
    move || {
      let m = Arc::new(RwLock::new(0));
      let hs: Vec<_> = (0..2)
        .map(|_| {
          let m = m.clone();
          spawn_harness("w", move || {
            let v = *m.read().unwrap();
            *m.write().unwrap() = v + 1;
          })
        })
        .collect();
      for h in hs {
        h.join().unwrap();
      }
      *out.lock().unwrap() = *m.read().unwrap();
    }
  };
  let mut found = None;
  for seed in 0..200 {
    let out = Arc::new(std::sync::Mutex::new(0));
    let r = run(RunCfg::new(seed), scenario(out.clone()));
    assert!(r.outcome.is_ok());
    if *out.lock().unwrap() == 1 {
      found = Some((seed, r));
      break;
    }
  }
  let (_, r) = found.expect("lost update not found");
  // replay from the decision list
  for _ in 0..5 {
    let out = Arc::new(std::sync::Mutex::new(0));
    let mut cfg = RunCfg::new(999);
    cfg.replay = Some(r.decisions.clone());
    let r2 = run(cfg, scenario(out.clone()));
    assert_eq!(*out.lock().unwrap(), 1);
    assert_eq!(r2.trace_hash, r.trace_hash);
  }
}

#[test]
fn deadlock_detected() {
  let mut n = 0;
  for seed in 0..100 {
    let r = run(RunCfg::new(seed), || {
      let a = Arc::new(Mutex::new(()));
      let b = Arc::new(Mutex::new(()));
      let (a2, b2) = (a.clone(), b.clone());
      let h = spawn_harness("other", move || {
        let _x = b2.lock().unwrap();
        let _y = a2.lock().unwrap();
      });
      {
        let _x = a.lock().unwrap();
        let _y = b.lock().unwrap();
      }
      h.join().unwrap();
    });
    match r.outcome {
      Outcome::Ok => {}
      Outcome::Deadlock { .. } => n += 1,
      o => panic!("{:?}", o),
    }
    assert_eq!(r.abandoned_os_threads, 0);
  }
  assert!(n > 5 && n < 95, "{n}");
}

#[test]
fn self_deadlock_and_recursive_read() {
  let r = run(RunCfg::new(1), || {
    let a = RwLock::new(1);
    let _g = a.read().unwrap();
    let _h = a.write().unwrap();
  });
  assert!(matches!(r.outcome, Outcome::SelfDeadlock { .. }), "{:?}", r.outcome);
  // recursive read with a queued writer deadlocks under the writer-preferring policy only
  let mut dl = [0, 0];
  for (k, wp) in [true, false].iter().enumerate() {
    for seed in 0..100 {
      let mut cfg = RunCfg::new(seed);
      cfg.writer_pref = *wp;
      let r = run(cfg, || {
        let a = Arc::new(RwLock::new(1));
        let a2 = a.clone();
        let h = spawn_harness("writer", move || {
          *a2.write().unwrap() = 2;
        });
        {
          let _g = a.read().unwrap();
          let _h = a.read().unwrap();
        }
        h.join().unwrap();
      });
      if matches!(r.outcome, Outcome::Deadlock { .. }) {
        dl[k] += 1;
      } else {
        assert!(r.outcome.is_ok(), "{:?}", r.outcome);
      }
    }
  }
  assert!(dl[0] > 0 && dl[1] == 0, "{:?}", dl);
}

#[test]
fn condvar_and_time() {
  for seed in 0..100 {
    let log = Arc::new(std::sync::Mutex::new(Vec::new()));
    let l2 = log.clone();
    let mut cfg = RunCfg::new(seed);
    cfg.spurious_permille = 200;
    let r = run(cfg, move || {
      let pair = Arc::new((Mutex::new(false), Condvar::new()));
      let p2 = pair.clone();
      let l3 = l2.clone();
      let h = thread::spawn(move || {
        thread::sleep(Duration::from_millis(500));
        *p2.0.lock().unwrap() = true;
        p2.1.notify_one();
        l3.lock().unwrap().push(("set", now_ns()));
      });
      let g = pair.0.lock().unwrap();
      let g = pair.1.wait_while(g, |x| !*x).unwrap();
      assert!(*g);
      drop(g);
      l2.lock().unwrap().push(("woke", now_ns()));
      h.join().unwrap();
      let t0 = time::Instant::now();
      thread::sleep(Duration::from_secs(3600));
      assert_eq!(t0.elapsed(), Duration::from_secs(3600));
    });
    assert!(r.outcome.is_ok(), "{:?}", r.outcome);
    assert_eq!(r.sim_time_ns, 3600_500_000_000);
    for (_, t) in log.lock().unwrap().iter() {
      assert_eq!(*t, 500_000_000);
    }
  }
}

#[test]
fn leak_and_panic_and_livelock() {
  let r = run(RunCfg::new(3), || {
    let pair = Arc::new((Mutex::new(false), Condvar::new()));
    thread::spawn(move || {
      let g = pair.0.lock().unwrap();
      let _g = pair.1.wait_while(g, |x| !*x).unwrap();
    });
    let t = quiesce();
    assert_eq!(t.iter().filter(|t| !t.finished && t.origin == Origin::Library).count(), 1);
  });
  assert!(matches!(r.outcome, Outcome::Leak { .. }), "{:?}", r.outcome);
  assert_eq!(r.abandoned_os_threads, 0);

  let r = run(RunCfg::new(3), || {
    let h = spawn_harness("p", || {
      let x: Option<i32> = None;
      x.expect("boom");
    });
    let _ = h.join();
  });
  assert!(matches!(&r.outcome, Outcome::Panic { msg, .. } if msg.contains("boom")), "{:?}", r.outcome);

  let mut cfg = RunCfg::new(3);
  cfg.step_budget = 5000;
  let r = run(cfg, || {
    let f = Arc::new(RwLock::new(true));
    let f2 = f.clone();
    let _h = spawn_harness("spin", move || while *f2.read().unwrap() {});
    quiesce();
  });
  assert!(matches!(r.outcome, Outcome::Livelock { .. }), "{:?}", r.outcome);
  assert_eq!(r.abandoned_os_threads, 0);
}

#[test]
fn passthrough_outside_run() {
  let m = Arc::new(Mutex::new(0));
  let cv = Arc::new(Condvar::new());
  let (m2, cv2) = (m.clone(), cv.clone());
  let h = thread::spawn(move || {
    *m2.lock().unwrap() = 5;
    cv2.notify_all();
  });
  let g = m.lock().unwrap();
  let g = cv.wait_while(g, |x| *x == 0).unwrap();
  assert_eq!(*g, 5);
  drop(g);
  h.join().unwrap();
  let mut hm = collections::HashMap::new();
  hm.insert(1, 2);
  assert_eq!(hm.len(), 1);
  let _ = time::SystemTime::now().duration_since(time::UNIX_EPOCH).unwrap();
}

use rxsim_rt::atomic::{AtomicBool, AtomicUsize, Ordering};
use rxsim_rt::*;
use std::sync::Arc;

#[test]
fn atomic_check_then_act_race_is_found() {
  // two tasks: if !flag.load() { flag.store(true); winners += 1 } - both can win
  let mut both = 0;
  for seed in 0..300 {
    let winners = Arc::new(std::sync::Mutex::new(0));
    let w2 = winners.clone();
    let r = run(RunCfg::new(seed), move || {
      let flag = Arc::new(AtomicBool::new(false));
      let hs: Vec<_> = (0..2)
        .map(|i| {
          let (flag, w) = (flag.clone(), w2.clone());
          spawn_harness(&format!("t{i}"), move || {
            if !flag.load(Ordering::SeqCst) {
              flag.store(true, Ordering::SeqCst);
              *w.lock().unwrap() += 1;
            }
          })
        })
        .collect();
      for h in hs {
        h.join().unwrap();
      }
    });
    assert!(r.outcome.is_ok());
    if *winners.lock().unwrap() == 2 {
      both += 1;
    }
  }
  assert!(both > 0, "the check-then-act race on an atomic was never scheduled");
}

#[test]
fn fetch_add_is_atomic() {
  for seed in 0..100 {
    let out = Arc::new(std::sync::Mutex::new(0));
    let o2 = out.clone();
    let r = run(RunCfg::new(seed), move || {
      let n = Arc::new(AtomicUsize::new(0));
      let hs: Vec<_> = (0..3)
        .map(|i| {
          let n = n.clone();
          spawn_harness(&format!("t{i}"), move || {
            for _ in 0..3 {
              n.fetch_add(1, Ordering::Relaxed);
            }
          })
        })
        .collect();
      for h in hs {
        h.join().unwrap();
      }
      *o2.lock().unwrap() = n.load(Ordering::SeqCst);
    });
    assert!(r.outcome.is_ok());
    assert_eq!(*out.lock().unwrap(), 9);
  }
}

#[test]
fn channel_delivers_in_order_and_disconnects() {
  for seed in 0..100 {
    let got = Arc::new(std::sync::Mutex::new(Vec::new()));
    let g2 = got.clone();
    let r = run(RunCfg::new(seed), move || {
      let (tx, rx) = rxsim_rt::mpsc::channel::<i32>();
      let h = spawn_harness("producer", move || {
        for i in 0..4 {
          tx.send(i).unwrap();
        }
      });
      for v in rx.iter() {
        g2.lock().unwrap().push(v);
      }
      h.join().unwrap();
    });
    assert!(r.outcome.is_ok(), "{:?}", r.outcome);
    assert_eq!(*got.lock().unwrap(), vec![0, 1, 2, 3]);
  }
}

#[test]
fn recv_without_sender_activity_is_a_deadlock_not_a_hang() {
  let r = run(RunCfg::new(1), move || {
    let (tx, rx) = rxsim_rt::mpsc::channel::<i32>();
    let _keep = tx; // never sends, never dropped before recv
    let _ = rx.recv();
  });
  assert!(!r.outcome.is_ok(), "{:?}", r.outcome);
}

#[test]
fn park_unpark_and_thread_ids() {
  for seed in 0..100 {
    let ids = Arc::new(std::sync::Mutex::new(Vec::new()));
    let i2 = ids.clone();
    let r = run(RunCfg::new(seed), move || {
      let me = rxsim_rt::thread::current();
      i2.lock().unwrap().push(me.id());
      let i3 = i2.clone();
      let h = rxsim_rt::thread::spawn(move || {
        let c = rxsim_rt::thread::current();
        i3.lock().unwrap().push(c.id());
        // same task, same id
        assert_eq!(c.id(), rxsim_rt::thread::current().id());
        me.unpark();
      });
      i2.lock().unwrap().push(h.thread().id());
      rxsim_rt::thread::park();
      h.join().unwrap();
    });
    assert!(r.outcome.is_ok(), "{:?}", r.outcome);
    let ids = ids.lock().unwrap().clone();
    assert_eq!(ids.len(), 3);
    let main = ids[0];
    let others: Vec<_> = ids.iter().filter(|x| **x != main).collect();
    assert_eq!(others.len(), 2);
    assert_eq!(others[0], others[1], "JoinHandle::thread().id() equals the spawned task's current().id()");
  }
}

#[test]
fn facades_pass_through_outside_a_run() {
  let a = AtomicUsize::new(1);
  a.fetch_add(2, Ordering::SeqCst);
  assert_eq!(a.load(Ordering::SeqCst), 3);
  let (tx, rx) = rxsim_rt::mpsc::channel();
  let h = rxsim_rt::thread::spawn(move || tx.send(5).unwrap());
  assert_eq!(rx.recv().unwrap(), 5);
  h.join().unwrap();
  let t = rxsim_rt::thread::current();
  assert_eq!(t.id(), rxsim_rt::thread::current().id());
}

#[test]
fn once_runs_once_and_recursion_is_a_self_deadlock() {
  use rxsim_rt::sync::Once;
  for seed in 0..50 {
    let n = Arc::new(std::sync::Mutex::new(0));
    let n2 = n.clone();
    let r = run(RunCfg::new(seed), move || {
      let once = Arc::new(Once::new());
      let hs: Vec<_> = (0..3)
        .map(|i| {
          let (once, n) = (once.clone(), n2.clone());
          spawn_harness(&format!("t{i}"), move || once.call_once(|| *n.lock().unwrap() += 1))
        })
        .collect();
      for h in hs {
        h.join().unwrap();
      }
      assert!(once.is_completed());
    });
    assert!(r.outcome.is_ok(), "{:?}", r.outcome);
    assert_eq!(*n.lock().unwrap(), 1);
  }
  let r = run(RunCfg::new(1), move || {
    let once = Arc::new(Once::new());
    let o2 = once.clone();
    once.call_once(move || o2.call_once(|| {}));
  });
  assert!(!r.outcome.is_ok(), "a recursive call_once must end the run: {:?}", r.outcome);
}

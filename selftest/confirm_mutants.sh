#!/bin/bash
# Re-confirms every seeded change under /verif/seeded/_incoming/<Cxx>/<m>/ on the CURRENT /repo HEAD:
#   (1) patch applies, (2) the crate's own suite still passes with it (179 tests),
#   (3) the demonstration fails with the patch, (4) the demonstration passes without it.
# One scratch worktree outside /repo and /verif, removed at the end. Results: seeded/_incoming/RESULTS.tsv
set -u
W=/var/tmp/rxsim-confirm
SRC=${SRC:-/verif/seeded/_incoming}
OUT=$SRC/RESULTS.tsv
git -C /repo worktree remove --force $W >/dev/null 2>&1
git -C /repo worktree add -q --detach $W HEAD || exit 2
export CARGO_NET_OFFLINE=true
HEAD=$(git -C /repo rev-parse --short HEAD)
echo -e "mutant\thead\tapplies\tsuite_with_patch\tdemo_with_patch\tdemo_without_patch" > $OUT
run_tests() { # $1 = filter (may be empty) ; prints "pass=N fail=M"
  (cd $W && timeout 1200 cargo test --offline --no-fail-fast $1 2>&1 | grep -E "^test result" | head -1 | sed -E 's/.*ok\. |.*FAILED\. //; s/;.*//; s/ passed/P/; s/^/ /' ) ; }
for d in $SRC/C*/m*; do
  id=$(basename $(dirname $d))/$(basename $d)
  [ -n "${ONLY:-}" ] && [[ "$id" != $ONLY ]] && continue
  P=$d/patch.diff; [ -f $d/patch.ported.diff ] && P=$d/patch.ported.diff
  git -C $W checkout -q -- . ; git -C $W clean -fdq -e target
  if ! git -C $W apply $P 2>/dev/null; then echo -e "$id\t$HEAD\tno\t-\t-\t-" >> $OUT; continue; fi
  # (2) suite with patch only
  suite=$(cd $W && timeout 1500 cargo test --offline --no-fail-fast 2>&1 | grep -E "^test result" | head -1 | grep -oE "[0-9]+ passed; [0-9]+ failed")
  # (3) demo with patch: names of the tests the demo adds
  if ! git -C $W apply $d/demo.diff 2>/dev/null; then echo -e "$id\t$HEAD\tyes\t$suite\tdemo-does-not-apply\t-" >> $OUT; continue; fi
  mods=$(git -C $W status --porcelain | grep -E "^\?\? src/tests/.*\.rs" | sed -E 's#.*src/tests/(.*)\.rs#\1#' | tr '\n' ' ')
  demo_with=""
  for m in $mods; do r=$(cd $W && timeout 900 cargo test --offline --no-fail-fast "tests::$m" 2>&1 | grep -E "^test result" | head -1 | grep -oE "[0-9]+ passed; [0-9]+ failed"); demo_with="$demo_with $m:[$r]"; done
  # (4) demo without patch
  git -C $W apply -R $P
  demo_without=""
  for m in $mods; do r=$(cd $W && timeout 900 cargo test --offline --no-fail-fast "tests::$m" 2>&1 | grep -E "^test result" | head -1 | grep -oE "[0-9]+ passed; [0-9]+ failed"); demo_without="$demo_without $m:[$r]"; done
  echo -e "$id\t$HEAD\tyes\t$suite\t$demo_with\t$demo_without" >> $OUT
done
git -C /repo worktree remove --force $W
echo done >> $OUT

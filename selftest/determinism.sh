#!/bin/bash
# Determinism self-test: every family, N seeds, run in separate processes at different worker
# counts; the per-run lines (schedule trace hash, history fingerprint, steps, switches, decisions,
# simulated time, outcome) must be identical. usage: selftest/determinism.sh [N]
N=${1:-400}
cd /verif
BIN=$(ls -t target/cache/*/rxsim | head -1)
[ -x "$BIN" ] || { bin/check --setup >/dev/null; BIN=$(ls -t target/cache/*/rxsim | head -1); }
fail=0; total=0
for f in $($BIN families); do
  a=$(VERIF_JOBS=16 $BIN determinism $f $N | md5sum)
  b=$(VERIF_JOBS=3 $BIN determinism $f $N | md5sum)
  c=$(VERIF_JOBS=1 VERIF_SEED=1 $BIN determinism $f $((N/4)) | md5sum)
  d=$(VERIF_JOBS=11 VERIF_SEED=1 $BIN determinism $f $((N/4)) | md5sum)
  total=$((total+1))
  if [ "$a" != "$b" ] || [ "$c" != "$d" ]; then echo "NONDETERMINISTIC $f"; fail=$((fail+1)); else echo "ok $f"; fi
done
echo "families=$total nondeterministic=$fail seeds_per_family=$N"
[ $fail -eq 0 ]

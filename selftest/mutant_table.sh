#!/bin/bash
# Runs, for every seeded change under /verif/seeded/<id>/, the quick check of the property it
# breaks (and optional extra checks listed in meta.json "also_run") against a patched scratch
# worktree and prints one line per (change, check): caught / missed, runs until the first
# violation, violation class. Writes /verif/seeded/TABLE.md.
cd /verif
# GLOB='seeded/C*-m1[34]' APPEND=1 selftest/mutant_table.sh   adds the rows of some changes only
OUT=seeded/TABLE.md
GLOB=${GLOB:-seeded/C*-m*}
if [ -z "${APPEND:-}" ]; then
  echo "| seeded change | breaks | check | verdict | runs until caught | violation class / blame |" > $OUT
  echo "|---|---|---|---|---|---|" >> $OUT
fi
for d in $GLOB; do
  [ -f $d/meta.json ] || continue
  prop=$(python3 -c "import json;print(json.load(open('$d/meta.json'))['property'])")
  checks=$(python3 -c "import json;m=json.load(open('$d/meta.json'));print(' '.join([m['property']]+m.get('also_run',[])))")
  for c in $checks; do
    r=$(selftest/run_mutant.sh $d/patch.diff $c 2>&1)
    if echo "$r" | grep -q "^VIOLATION"; then
      runs=$(echo "$r" | grep -E "^FAIL" | sed -E 's/.*runs=([0-9]+).*/\1/')
      cls=$(echo "$r" | grep -E "^violation:" | head -1 | sed -E 's/.*class=([^ ]+) blame=(.*)/\1 \/ \2/')
      echo "| $(basename $d) | $prop | $c | caught | $runs | $cls |" >> $OUT
    elif echo "$r" | grep -q "exit=0"; then
      echo "| $(basename $d) | $prop | $c | **missed** | - | - |" >> $OUT
    else
      echo "| $(basename $d) | $prop | $c | harness-error | - | $(echo "$r" | tail -1 | cut -c1-80) |" >> $OUT
    fi
  done
done
cat $OUT

#!/bin/bash
# usage: selftest/run_mutant.sh <patch.diff> <Cxx> [tier]
# Applies the patch to a scratch worktree of /repo (outside /repo and /verif), runs the check
# against it (VERIF_REPO), prints the verdict and removes the worktree. /repo is not touched.
set -u
PATCH=$(readlink -f "$1"); PROP=$2; TIER=${3:-quick}
W=/var/tmp/rxsim-mut-$$
git -C /repo worktree add -q --detach "$W" HEAD || exit 2
trap 'git -C /repo worktree remove --force "$W" >/dev/null 2>&1; rm -rf /var/tmp/rxsim-mut-ev-$$' EXIT
git -C "$W" apply "$PATCH" || { echo "patch does not apply"; exit 2; }
VERIF_REPO="$W" VERIF_EVIDENCE_DIR=/var/tmp/rxsim-mut-ev-$$ VERIF_REPLAY_DIR=/var/tmp/rxsim-mut-ev-$$ VERIF_SCRATCH=/var/tmp/rxsim-mut-build-$$ \
  /verif/bin/check "$PROP" --tier "$TIER" 2>&1 | grep -E "^(VIOLATION|KNOWN|OK|FAIL|HARNESS|violation|  detail|  minimised|  decisions)" | cut -c1-400
echo "exit=${PIPESTATUS[0]}"
rm -rf /var/tmp/rxsim-mut-build-$$

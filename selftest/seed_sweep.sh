#!/bin/bash
# every check must stay quiet on the unchanged tree for other seeds too
# usage: selftest/seed_sweep.sh "<seeds>" [tier]
cd "$(dirname "$0")/.."
SEEDS=${1:-"2 3 4 5 6 7 8 9 10 11"}; TIER=${2:-quick}
export VERIF_EVIDENCE_DIR=${VERIF_EVIDENCE_DIR:-/var/tmp/rxsim-sweep-ev}
bad=0
for s in $SEEDS; do
  for p in C01 C03 C04 C05 C06 C07 C08 C09 C10 C11 C12 C13 C14 C15 C16 C17 C18 C19; do
    out=$(VERIF_SEED=$s bin/check $p --tier $TIER 2>&1); rc=$?
    line=$(echo "$out" | grep -E "^(OK|FAIL)" | tail -1)
    echo "seed=$s $p rc=$rc $line"
    if [ $rc -ne 0 ]; then bad=$((bad+1)); echo "$out" | grep -E "^(VIOLATION|violation|  detail|  minimised)" | cut -c1-600; fi
  done
done
echo "sweep finished: non-zero exits=$bad"

#!/usr/bin/env python3
"""Moves the re-confirmed seeded changes from seeded/_incoming*/ to seeded/<id>/ with meta.json.

A change is kept only if, on the /repo HEAD named in the RESULTS.tsv row:
  the patch applies, the crate's own suite passes with it (179 passed; 0 failed),
  the demonstration fails with it and passes without it.
Everything else is listed in seeded/DROPPED.md with the reason.
"""
import json, os, re, shutil, sys

V = os.path.dirname(os.path.dirname(os.path.abspath(__file__)))
S = os.path.join(V, 'seeded')

# what each change needs in order to manifest (from the authors' NOTES.md, condensed) and which
# other checks are worth running against it
INFO = {
 ('1','C01','m1'): ("the shared terminal flag is set after the callback ran instead of before: a second event must hit the same observer while the first terminal callback is still running (two threads, or a re-entrant ill-formed source)", ['C19']),
 ('1','C01','m2'): ("item gating dropped on the error path: an ill-formed source whose first terminal is an error, followed by an item, with the subscriber directly on the source (or behind defer)", []),
 ('1','C03','m1'): ("StreamController hands out unscribers.len() as serial instead of a monotonic counter: flat_map with hot overlapping inners - A and B live, A completes, C starts and reuses B's serial, B completes, outer completes -> downstream completes while C is live", []),
 ('1','C03','m2'): ("amb winner election: read-lock fast path, then write without re-check: two inputs deliver their first signal concurrently from two threads", ['C11']),
 ('1','C04','m1'): ("retry's attempt counter hoisted out of the per-subscription closure: the same retry(n>=2) observable value must be subscribed a second time (explicitly or through an outer retry)", ['C14']),
 ('1','C04','m2'): ("on_error_resume_next forwards the primary error when the fallback observable itself fails with a different error", []),
 ('1','C05','m1'): ("FunctionWrapper::clear uses try_write: another thread must hold that slot's read lock (inside Observer::next / is_subscribed) at the instant of the clear", []),
 ('1','C05','m2'): ("Observer::unsubscribe clears the callback slots only when no teardown is installed: subscriber directly on a subject-backed observable, unsubscribe before the terminal, then look at is_subscribed()", []),
 ('1','C07','m2'): ("ReplaySubject::next holds the history write lock across the broadcast: a subscriber callback on the same thread emits into / subscribes to the same ReplaySubject", []),
 ('1','C08','m1'): ("abort re-check moved before the condvar wait: the worker must be parked at abort time and a post must get the queue mutex before the woken worker", []),
 ('1','C08','m2'): ("scheduling() clears the abort flag on entry: abort must fall between thread::spawn and the worker's first step", []),
 ('1','C09','m1'): ("observe_on forwards the error directly instead of posting it: the source must end with an error while earlier next tasks are still queued", []),
 ('1','C09','m2'): ("subscribe_on creates its scheduler once per operator value: the same subscribe_on observable must be subscribed more than once", []),
 ('1','C10','m1'): ("Subject::error/complete reset the subscription serial: subscribe A, terminal, subscribe B, A.unsubscribe(), next(v) -> B silently loses v", []),
 ('1','C10','m2'): ("ReplaySubject replays from a cloned snapshot with no lock held: another thread must push between the start and the end of a late subscriber's replay", ['C12']),
 ('1','C11','m2'): ("amb is_win: read-lock fast path without re-check: both inputs' first emissions on different threads read None before either writes", []),
 ('1','C12','m1'): ("Subject::observable increments the serial and reads it back under a second lock: two threads subscribe concurrently and get the same key, the second insert overwrites the first observer", []),
 ('1','C12','m2'): ("ReplaySubject::next broadcasts before it appends to the history: a subscriber's register+replay must fall between the producer's snapshot and its append", []),
 ('1','C13','m1'): ("Subject::observable inserts under the write lock and reads len() under a second lock: the first two subscribers of ref_count()/replay() race, nobody sees count == 1, the source is never subscribed", []),
 ('1','C13','m2'): ("ReplaySubject::observable hoists the per-subscriber inner-subscription slot above Observable::create: subscribe A, subscribe B on the same observable() value, unsubscribe A -> B's inner subscription is cancelled", []),
 ('1','C14','m1'): ("distinct_until_changed keeps `last` per operator value: a later subscription whose first item equals the last item the previous one passed", []),
 ('1','C14','m2'): ("buffer_with_count shares one buffer, emptied on emission/completion only: the previous subscription must end without completing while a chunk is partially filled, or two subscriptions live at once", []),
 ('1','C15','m1'): ("observe_on registers scheduler.abort() as on_finalize only after subscribing the source: a source that completes synchronously and keeps the subscribing thread busy, so that the worker delivers complete before subscribe returns", []),
 ('1','C15','m2'): ("AsyncFunctionQueue::stop sets abort and notifies outside the queue mutex: abort from another thread exactly as the worker is about to park (window between the predicate's abort.read() and Condvar::wait; 1 in 5 000..15 000 real executions)", ['C08']),
 ('1','C16','m1'): ("timeout forwards the item before it cancels the previous timer: the downstream next handler of item k+1 must still be running when item k's deadline passes (slow consumer)", []),
 ('1','C16','m2'): ("interval's tick counter shared by all subscriptions of one interval(..) value: the same observable must be subscribed more than once", []),
 ('1','C17','m1'): ("two cooperating edits: finalize no longer resets the on_finalize slot and AsyncFunctionQueue::stop no longer clears its queue: the subscription must end while items are still pending in an observe_on queue", []),
 ('1','C17','m2'): ("Observer::unsubscribe returns early when !is_subscribed(): an operator pipeline, then a terminal, then the handles are dropped", []),
 ('1','C18','m1'): ("poll narrows the waker-slot lock to the store: poll reads done==false, the emitter completes (finds no waker), poll stores the waker and returns Pending for ever", []),
 ('1','C18','m2'): ("the terminal callbacks read the waker slot with try_read: the terminal callback must run exactly while poll holds the waker write lock", []),
 ('2','C06','m1'): ("take's completion check `>=` -> `==`: a further emission must reach take while the count-th item is still being delivered (second thread / re-entrant subscriber), or take(0)", []),
 ('2','C06','m2'): ("Subject::observable arms the teardown after registering and calling on_subscribe: ref_count() over a synchronously emitting source whose first subscriber finishes during the connect burst", ['C13']),
 ('2','C11','m1'): ("amb is_win: read-lock fast path, write without looking again: a second input's first notification reads None between the first input's read and write", []),
 ('2','C11','m2'): ("take bumps its 'seen' counter after the delivery instead of in the deciding critical section: take fed from two threads, an item arrives while the quota-filling item is being delivered", []),
 ('2','C17','m1'): ("two cooperating edits (on_finalize slot not reset + scheduler queue not cleared on stop): the subscription ends while closures wait in an observe_on/subscribe_on queue", []),
 ('2','C17','m2'): ("Subject::error no longer clears the observer map before delivering: the ending is an error, the source is a Subject, the callbacks are subscribed directly, the caller does not unsubscribe", []),
 ('2','C19','m1'): ("first_terminal: read flag, return if set, else write-lock and set without re-check: two threads delivering different terminal kinds both read false before either writes", []),
 ('2','C19','m2'): ("the error wrapper publishes `terminated` only after the user's error handler returned: a completion reaches the subscriber on another thread while the error handler runs", []),
 ('2','C07','m1'): ("AsyncFunctionQueue::stop takes abort.write() first and keeps it while taking the queue mutex (the worker takes them in the other order): abort() from another thread while the worker cycles through its queue or is being woken by a post", []),
 ('2','C07','m2'): ("ref_count keeps its `connected` flag write-locked across the connect: synchronous source below ref_count, the only subscriber leaves during the emission (count 0) and a re-subscribe from the same callback chain brings it back to 1", []),
 ('3','C03','m1'): ("StreamController serial = unscribers.len(): flat_map with three overlapping hot inners ending oldest-first (outer a, outer b, inner A completes, outer c, outer completes, inner B completes -> C still live but downstream completed)", []),
 ('3','C03','m2'): ("amb forwards every error without the is_win check: a source W signals first, then a different, so far silent source L raises an error", []),
 ('3','C04','m1'): ("on_error_resume_next forwards the source's error when the fallback observable fails with a different payload", []),
 ('3','C04','m2'): ("Subject::error notifies before it clears the observer map: a plain Subject feeds retry / retry_when / on_error_resume_next, the subject errors while a retry is still allowed (the resubscription inside the notification is wiped) and emits again afterwards", ['C10']),
 ('3','C05','m1'): ("Drop for Using returns early while the thread is panicking: the scope owning the guard is left by a panic that is caught further up", []),
 ('3','C05','m2'): ("FunctionWrapper::clear uses try_write and skips a busy slot: at the instant of fn_next.clear() another thread holds that slot's read lock", []),
 ('3','C08','m1'): ("the worker waits with wait_timeout_while(1 s) and treats a timed-out wake-up with an empty queue as stop: the queue stays empty for >= 1 s of (virtual) time, then a post", ['C09']),
 ('3','C08','m2'): ("lazy worker start with a non-atomic first-post check: two poster threads are both inside the very first post within the spawn window -> two workers on one queue", []),
 ('3','C09','m1'): ("idle worker exits after 1 s (wait_timeout_while, timeout mistaken for abort): a pause of >= 1 s between two events of the source", ['C08']),
 ('3','C09','m2'): ("observe_on delivers the error without going through the scheduler: the source ends with an error (with items still queued: overtaking and loss)", []),
 ('3','C10','m1'): ("Subject::error/complete call the observers first and clear the map afterwards: an observer subscribes from inside a terminal callback of the same subject and is wiped by the late clear", []),
 ('3','C10','m2'): ("the ReplaySubject replay closure copies was_completed instead of holding its read guard: complete() on another thread while a late subscriber's replay is in progress is swallowed", ['C12']),
 ('3','C12','m1'): ("ReplaySubject's per-subscriber replay mark turned into a high-water mark: two producers interleaved as P0 appends k, P1 appends k+1, P1 broadcasts, P0 broadcasts (dropped)", []),
 ('3','C12','m2'): ("Subject resets its serial counter when the last observer leaves: an unsubscribe of the only observer overlaps a newcomer between taking its serial and inserting itself, then two more subscriptions (the second replaces the newcomer)", []),
 ('3','C13','m1'): ("Subject keys an observer by observers.len()+1: subscribe A, subscribe B, unsubscribe A (the older one), subscribe C -> C replaces B", ['C10']),
 ('3','C13','m2'): ("ReplaySubject's post-replay check narrowed to 'a terminal was stored': a late observable().take(k), 1 <= k <= n stored items, completes inside the replay and its inner registration leaks, so the source is never released", []),
 ('3','C14','m1'): ("retry_when clears its (shared, shallow-cloned) predicate when a stream fails: a subscription ends with a rejected error, the same observable is subscribed again and raises an error the predicate would accept", []),
 ('4','C01','m1'): ("a terminal that arrives while an item is in flight is delivered without being recorded: an ill-formed source calls a terminal from a second thread (or re-entrantly) during a next callback, then a second terminal", ['C19']),
 ('4','C01','m2'): ("the terminated flag is toggled instead of set: an ill-formed source sends a second terminal (which re-opens the observer) and then anything else", ['C19']),
 ('4','C06','m1'): ("take completes on n.0 == count instead of >=: more items than count reach take before it has completed (re-entrant or concurrent producers), and the source is never released", ['C11']),
 ('4','C06','m2'): ("sequence_equal aborts its upstreams only in the 'items differ' branch: the verdict comes from a length mismatch / early terminal while the other source is still live", []),
 ('4','C07','m1'): ("AsyncFunctionQueue::stop takes the locks in the opposite order to the worker loop: abort on one thread while the worker is between its two acquisitions", ['C08', 'C15']),
 ('4','C07','m2'): ("sample keeps its state lock across the downstream call (if-let temporary): the subscriber callback feeds the sampled source of the same sample on the same thread", []),
 ('4','C11','m1'): ("zip: an input that ends with an empty buffer force-completes the zipped stream although the other inputs' buffered items could still pair with items in flight", ['C03']),
 ('4','C11','m2'): ("StreamController::new_observer reads the serial first and commits it after the registration: two threads register an upstream on the same controller at the same time (flat_map whose outer items come from two threads) and get the same serial - one inner stream replaces the other", []),
 ('4','C15','m1'): ("debounce registers its on_finalize (scheduler abort) only after source.inner_subscribe: a cold source that terminates synchronously inside subscribe", []),
 ('4','C15','m2'): ("interval's job returns early without abort() when it finds the subscription already gone: unsubscribe before the worker ran its first check", []),
 ('4','C16','m1'): ("timeout leaves the previous item's timer armed while the successor is handed on: a slow consumer of item k+1 while the timer of item k is still pending", []),
 ('4','C16','m2'): ("delay holds an 'order' mutex across its sleep: a second item reaches delay while the first is in flight (two producer threads, or a consumer feeding back on the same thread)", ['C07']),
 ('4','C17','m1'): ("Subject::error() no longer empties the observer map: the subject fails while observers are registered; their callbacks stay reachable from the subject", []),
 ('4','C17','m2'): ("scheduler stop() keeps its queue and finalize() keeps the on_finalize slot: closures queued on an aborted scheduler keep the subscriber's callbacks alive", []),
 ('4','C18','m1'): ("poll registers the waker only once: the future is polled again with a different waker (moved to another task) before the stream ends - the stale waker is woken", []),
 ('4','C18','m2'): ("the error callback keeps the err lock while it sets done and wakes: poll on another thread takes the locks in the other order on the error path", []),
 ('4','C19','m1'): ("a terminal accepted while an item check holds the flag is not recorded: a terminal races an item on one shared observer, then a second terminal arrives", ['C01']),
 ('4','C19','m2'): ("the terminal that loses the race re-opens the gate: complete and error race on one shared observer, later items get through", ['C01']),
 ('5','C03','m1'): ("sample clears its slot after the delivery instead of before: a source item arrives while the previous sample is still being delivered (subscriber feeds the source from its callback, or a second thread)", ['C07']),
 ('5','C03','m2'): ("take_until: the trigger's complete goes through sink_complete and the trigger is subscribed first: a trigger that completes with zero items synchronously inside its subscribe (empty(), everything filtered out)", []),
 ('5','C04','m1'): ("ReplaySubject::error broadcasts first and stores the error afterwards: a live subscriber whose error handler (retry / retry_when / on_error_resume_next to the same stream) resubscribes to the replayed stream inside the notification", ['C10']),
 ('5','C04','m2'): ("amb's error callback only checks has_won instead of claiming the win: the error is the very first notification of the whole race", ['C03']),
 ('5','C05','m1'): ("FunctionWrapper::clear gives up when the slot lock is busy (try_write): a producer holds the slot's read lock at the instant of unsubscribe, subscriber directly on a hot source", []),
 ('5','C05','m2'): ("Using does not unsubscribe when dropped by unwinding: the scope owning the guard is left by a panic", []),
 ('5','C08','m1'): ("the worker resets the abort flag when it starts: abort() arrives before the spawned worker reaches that line", ['C15']),
 ('5','C08','m2'): ("stop() uses try_lock and skips the notify when the queue mutex is busy: abort lands while the worker has re-locked the empty queue and evaluated the predicate but is not yet waiting", ['C15']),
 ('5','C10','m1'): ("Subject installs the observer's teardown after the on_subscribe hook: the Subject inside ref_count(), a source that emits synchronously inside subscribe, the first subscriber behind take(1) - or any observer that leaves between insert and teardown install", ['C13', 'C06']),
 ('5','C10','m2'): ("the ReplaySubject replay copies the stored-terminal flags instead of holding their read guards: error()/complete() on another thread while a late subscriber is inside its hand-over of a non-empty history", ['C12']),
 ('5','C12','m1'): ("the ReplaySubject subscriber's replayed mark advances with each live delivery: A.record(k), B.record(k+1), B.broadcast(k+1), A.broadcast(k) -> item k dropped", []),
 ('5','C12','m2'): ("ReplaySubject::next broadcasts items.len() instead of len-1 as live index: P.record(k), S registers + replays 0..=k, P.broadcast(k) -> duplicate", []),
 ('5','C13','m1'): ("Subject::next walks its snapshot with take_while(is_subscribed): an observer leaves (unsubscribed by another observer's callback or by another thread) while an item is being delivered - everyone behind it in the snapshot misses the item", ['C10', 'C12']),
 ('5','C13','m2'): ("ReplaySubject's live error handler no longer waits for the replay: replay() over a cold source that fails synchronously inside the first subscribe - the first subscriber gets only the error", []),
 ('5','C14','m1'): ("retry_when clears its (shared) predicate wrapper when it gives up: first subscription ends with a rejected error, the same value is subscribed again and hits an error the predicate accepts", []),
 ('5','C14','m2'): ("Subject keeps its serial write lock across the on_subscribe hook: ref_count() over a cold synchronous source plus a second subscription started during that run (from the first subscriber's callback: self-deadlock)", ['C07']),
 ('6','C01','m1'): ("the item callback is released only after the terminal callback has returned: an item arrives during the terminal callback (re-entrantly or from another thread), subscriber directly on the source", ['C19']),
 ('6','C01','m2'): ("terminal-versus-terminal exclusion is a check-then-act across two locks: two threads signal different terminals on the same subscriber at once", ['C19']),
 ('6','C06','m1'): ("Observer::unsubscribe skips the teardown when the observer has already ended: retry / retry_when / on_error_resume_next directly over a multi-input operator, one input fails while a sibling is live, and the sibling tries to emit while the next attempt is being subscribed", ['C17']),
 ('6','C06','m2'): ("StreamController::new_observer reads and writes back its serial under separate locks: two threads register an upstream on one controller at once (flat_map fed from two threads), then the stream ends - one inner source is never unsubscribed", ['C11']),
 ('6','C07','m1'): ("amb no longer cancels a source at the moment it loses: the winner signals inside subscribe and stays open, a later input is an unbounded synchronous producer - subscribe never returns", ['C06']),
 ('6','C07','m2'): ("AsyncFunctionQueue::stop takes abort before queue (AB-BA with the worker): abort from another thread exactly while the worker is between two queued functions", ['C08', 'C15']),
 ('6','C11','m1'): ("sink_complete decrements the serial counter ('recycling'): flat_map with three inner streams - #0 and #1 start, #0 completes while #1 is live, #2 starts and collides with #1", ['C03']),
 ('6','C11','m2'): ("zip force-completes when a finishing input's own queue is empty: another input's thread has popped the last tuple and is still delivering it", ['C03']),
 ('6','C15','m1'): ("subscribe_on's posted task returns early for a stream that is already dead: the downstream observer dies while the inner stream is being set up (flat_map of subscribe_on, unsubscribe from inside the scheduler factory)", []),
 ('6','C15','m2'): ("scheduling() resets the abort flag when it starts: the subscription ends from another thread between NewThreadScheduler::new() and the worker's first statement", ['C08']),
 ('6','C16','m1'): ("timeout keeps the old timer armed while the next item is delivered: a slow consumer of item k+1 while the timer of item k is pending", []),
 ('6','C16','m2'): ("interval waits with park_timeout instead of sleep and does not re-check the deadline: a pending unpark token or a spurious return makes a tick fire early", []),
 ('6','C17','m1'): ("sequence_equal aborts the other upstream only when no input has completed: hot inputs of different length - the longer one's pipeline and items are never released", ['C06']),
 ('6','C17','m2'): ("upstream_abort_observe returns early (after removing the entry) when the subscriber is gone: the subscriber's terminal callback emits into the still-subscribed loser / trigger", ['C06']),
 ('6','C18','m1'): ("the error callback holds the err write guard across done=true and the waker read: a poll racing the failure takes the locks in the other order", []),
 ('6','C18','m2'): ("poll builds its result from an err snapshot taken before it re-checks done: the failure lands entirely inside one poll", []),
 ('6','C19','m1'): ("the terminal state only moves forward (complete < error): an error reaches the observer after a completion was accepted", ['C01']),
 ('6','C19','m2'): ("the item path holds only a Weak to the terminated flag: terminal, then the other terminal closure is released, then a late item", ['C01']),
 ('7','C03','m1'): ("sequence_equal marks the end with materialize() instead of map+concat: a compared source fails while the sequences are still equal - no verdict and no error (all sources failing at the same index: panic)", ['C04']),
 ('7','C03','m2'): ("sample's trigger handler empties a temporary copy of the latch: the order item, tick, tick re-emits the old item", []),
 ('7','C04','m1'): ("Subject::error notifies first and clears its observer map afterwards: a hot Subject that goes on after an error, under retry / retry_when / on_error_resume_next onto the same subject - the resubscription made inside the notification is wiped", ['C10']),
 ('7','C04','m2'): ("Observer's first-terminal test-and-set became a read-locked test followed by a write-locked set: an error and a completion reach the same subscriber from two threads at once", ['C19', 'C01']),
 ('7','C05','m1'): ("Using::drop returns early while the thread is panicking: the scope owning the guard is left by a panic", []),
 ('7','C05','m2'): ("Observer::unsubscribe no longer clears the error slot: subscriber directly on a source that reports an error after it was unsubscribed", []),
 ('7','C08','m1'): ("a post made on the worker thread itself runs inline: a task posts to its own scheduler while other tasks are queued", ['C09']),
 ('7','C08','m2'): ("the worker drains the whole backlog at once (mem::take of the queue): two tasks queued while the worker is busy, abort while the first of the batch runs", []),
 ('7','C09','m1'): ("AsyncFunctionQueue::post runs inline when called on its own worker: a downstream callback emits into the source of the same observe_on while earlier events are queued", ['C08']),
 ('7','C09','m2'): ("lazily started worker with a check-then-set started flag: two emitter threads make the very first post at the same instant - two workers on one queue", ['C08']),
 ('7','C10','m1'): ("ReplaySubject goes live before its hand-over backlog is delivered (buffer.take()): events buffered during the replay, then another pushed while the backlog is being delivered", ['C12']),
 ('7','C10','m2'): ("BehaviorSubject's per-subscriber seen mark became a high-water mark: two overlapping producers (or a nested push with two observers) - the value dispatched later but stored earlier is dropped", ['C12']),
 ('7','C12','m1'): ("ReplaySubject subscriber goes live before its backlog is delivered: still in replay, pushes get buffered, another push exactly while the buffered batch is being delivered overtakes it", ['C10']),
 ('7','C12','m2'): ("BehaviorSubject's stale-version filter became a per-subscriber high-water mark: P1 stores n, P2 stores n+1, P2's broadcast reaches the observer before P1's", ['C10']),
 ('7','C13','m1'): ("a buffered error discards the items buffered before it: a late subscriber of replay() is inside its hand-over, the source emits one more item and then fails", []),
 ('7','C13','m2'): ("the replay loop returns early for a dead subscriber and skips the final clean-up: the first subscriber of replay() ends (take_until fired by the synchronous source itself) while it is still being registered, history non-empty", []),
 ('7','C14','m1'): ("tap's error hook is consumed by the first subscription that fails (call_and_clear): the same tap observable subscribed again and failing again", []),
 ('7','C14','m2'): ("amb keeps the winner of the race across subscriptions (cell created in execute): second subscription in which a different source fires first", []),
 ('8','C01','m1'): ("the error callback no longer consults the shared terminal flag: complete, then error on the same observer (subscriber directly on the source)", ['C19']),
 ('8','C01','m2'): ("the item path reads the terminal flag destructively: terminal, then an item (dropped, but it resets the flag), then one more event", ['C19']),
 ('8','C06','m1'): ("contains delivers its verdict before it tears the source down: the subscriber's callback emits into the source from inside the verdict's delivery", []),
 ('8','C06','m2'): ("sequence_equal skips the abort when the verdict comes from an end marker: sources of different length, the longer one hot or unbounded", ['C17']),
 ('8','C07','m1'): ("switch_on_next keeps a read guard of its flag across the downstream call: a callback re-enters (emits into the target on the same thread, or into the source while another thread is queued in the target's write)", []),
 ('8','C07','m2'): ("dematerialize completes downstream before it aborts upstream: a Complete item from a source that keeps going until it is unsubscribed", ['C06']),
 ('8','C11','m1'): ("zip force-completes when a finishing input's own queue is empty: the last tuple is popped and still being delivered by another thread", []),
 ('8','C11','m2'): ("take completes at once on an over-limit item, ignoring the in-flight counter: an accepted item is still inside sink_next when another thread brings an item beyond the limit", []),
 ('8','C15','m1'): ("timeout's watchdog loses its take(1): a timer overwritten in the slot without being unsubscribed (two producer threads inside timeout at once, or a re-entrant emission) ticks for ever", []),
 ('8','C15','m2'): ("skip_until forgets its fired trigger instead of unsubscribing it: a trigger that owns a thread (interval, observe_on) and goes on after it fired", []),
 ('8','C16','m1'): ("delay skips the sleep when dur.as_millis() == 0: any delay below one millisecond", []),
 ('8','C16','m2'): ("timeout keeps the previous timer armed while the successor is delivered: a slow consumer of item k while the timer of item k-1 is pending", []),
 ('8','C17','m1'): ("finalize keeps the on_finalize slot and stop() keeps its queue: the same two-site change as C17-m1 (duplicate)", []),
 ('8','C17','m2'): ("sequence_equal aborts its upstream only after sink_complete has dropped the registration: a false verdict before hot sources end", ['C06']),
 ('8','C18','m1'): ("poll has a fast path on err and no longer looks at err once done is set: the failure's two writes land between the two reads of one poll", []),
 ('8','C18','m2'): ("the error callback keeps the err write guard (if-let temporary) while it takes the waker lock: a poll racing the failure", []),
 ('8','C19','m1'): ("the error path sets the terminal flag but no longer arbitrates on it: a completion accepted first, then an error already past the liveness check", ['C01']),
 ('8','C19','m2'): ("fn_next no longer reads the terminal flag and Subject::complete notifies before it clears its map: next on another thread while the subject is still telling the second subscriber", ['C01', 'C12']),
 ('9','C03','m1'): ("sample clears its latch after the delivery (duplicate of C03-m9)", []),
 ('9','C03','m2'): ("sequence_equal emits the verdict and only then tears the upstream down (sink_complete_force): the subscriber ends or feeds both hot sources on receiving the verdict - a second, contradicting verdict", ['C06']),
 ('9','C04','m1'): ("Subject::error clears its observers after notifying them (duplicate of C04-m13)", []),
 ('9','C04','m2'): ("RxError::from_error / from_result return an RxError payload unchanged instead of wrapping it: a source raises an error whose payload type is RxError itself", []),
 ('9','C05','m1'): ("Observer::error no longer consumes its slot: after an error terminal is_subscribed() stays true (subscriber directly on the source)", ['C06']),
 ('9','C06','m1'): ("switch_on_next retires the source by sink_complete instead of unsubscribing it: subscribe, target emits, source emits once more, then unsubscribe - the source stays subscribed (delivered as C05/m2)", ['C05']),
 ('9','C08','m1'): ("post reads the abort flag and keeps that guard while it takes the queue mutex (AB-BA with stop): a poster between the two while another thread is inside stop()", ['C07']),
 ('9','C08','m2'): ("NewThreadScheduler gets a Drop that stops the queue when the last handle goes: post tasks, then drop every handle without abort - the backlog is discarded", []),
 ('9','C09','m1'): ("a task posted from the worker thread jumps the queue (push_front): a callback on the worker makes the source emit while earlier events are queued", ['C08']),
 ('9','C09','m2'): ("observe_on skips queued items once the source has failed: a source that ends with an error while earlier items are still undelivered", []),
 ('9','C10','m1'): ("ReplaySubject drops the explicit release of its inner registration: the subscriber is unsubscribed while it is still being registered (replay(), take_until fired by the synchronous source)", ['C13']),
 ('9','C10','m2'): ("BehaviorSubject lets a terminal bypass the hand-over queue when it is momentarily empty: queued values are being handed over when complete()/error() arrives", ['C12']),
 ('9','C12','m1'): ("ReplaySubject reads its stored terminal only after replaying the history: a push followed by a terminal between the history copy and the end of the replay", ['C10']),
 ('9','C12','m2'): ("BehaviorSubject filters already-seen versions only for buffered values: a push stalled between storing and delivering its value for the subscriber's whole hand-over", ['C10']),
 ('9','C13','m1'): ("ref_count's hooks hold the connection slot only weakly: take observable(), drop the RefCount handle, then the last subscriber leaves - the source is not unsubscribed", ['C06']),
 ('9','C13','m2'): ("ReplaySubject relies on the one-shot teardown after the hand-over: the first subscriber of replay() is unsubscribed while it is still being registered", ['C10']),
 ('9','C14','m1'): ("start coalesces overlapping subscriptions: two threads subscribe the same start(f) value, the second while the first is inside f", []),
 ('9','C14','m2'): ("amb keeps its decided winner across subscriptions (duplicate of C14-m14)", []),
 ('10','C01','m1'): ("the item gate is replaced by clearing the item slot after the terminal callback returned: an item arrives while the terminal callback is still running (re-entrantly or from a second thread), subscriber directly on a hot source", ['C19']),
 ('10','C01','m2'): ("first-terminal-wins is decided on the two callback slots instead of the one atomic flag: error and complete signalled by two threads at the same instant", ['C19']),
 ('10','C06','m1'): ("upstream_abort_observe returns early once the subscriber is gone, which neutralises new_observer's re-check: thread A passes the first check, thread B finalizes, A registers - the upstream stays subscribed", ['C11']),
 ('10','C06','m2'): ("inner_subscribe no longer skips an already dead observer: the stream ends while it is being assembled and a later input is a not yet connected ref_count()", ['C15', 'C13']),
 ('10','C07','m1'): ("switch_on_next keeps a read guard on its flag across the downstream call (match scrutinee temporary; duplicate of C07-m15)", []),
 ('10','C07','m2'): ("ref_count's connect-once flag keeps its write guard across the synchronous connect: cold synchronous source, the first subscriber ends during the connect (take(1)) and its complete callback subscribes again", ['C13']),
 ('10','C11','m1'): ("take's in-flight count collapsed into a flag: take(n>=2) fed from two threads, two accepted items in delivery at once, the later one finishing first", []),
 ('10','C11','m2'): ("amb elects its winner with compare_exchange(0, serial) - serial 0 is a valid serial: the last-listed input signals first and another input emits before it completes", ['C03']),
 ('10','C15','m1'): ("StreamController::finalize made run-once: the stream ends from elsewhere between StreamController::new and set_on_finalize (debounce creates its scheduler inside that window) - the worker is never aborted", []),
 ('10','C15','m2'): ("inner_subscribe no longer skips a dead observer: an interval shared by ref_count(), one subscriber whose pipeline ended while being assembled, then all real subscribers leave - the count never reaches 0", ['C06']),
 ('10','C16','m1'): ("timeout cancels the previous watchdog only after the next item has been delivered (duplicate of C16-m11 / C16-m16)", []),
 ('10','C16','m2'): ("interval's 'drift compensation' accumulates the subscriber's time: three or more ticks and a subscriber that spends a noticeable part of d in next", []),
 ('10','C17','m1'): ("ReplaySubject checks 'the subscriber ended during the hand-over' before the drain loop instead of after it: a terminal buffered during the replay is delivered without the release that follows", ['C10']),
 ('10','C17','m2'): ("finalize keeps the on_finalize slot and stop() keeps its queue (duplicate of C17-m1)", []),
 ('10','C18','m1'): ("the error callback keeps the err write guard across done=true and the waker read (duplicate of C18-m11)", []),
 ('10','C18','m2'): ("poll moves the error out of the shared state (take) on the ready path: a clone of the future, or a second await by reference, then yields Ok(items so far)", []),
 ('10','C19','m1'): ("the error path only reads the terminated flag: an error accepted first, then a completion that gets past the operators' other protections", ['C01']),
 ('10','C19','m2'): ("the terminal gate uses mem::take instead of mem::replace(.., true): every terminal counts as the first", ['C01']),
 ('11','C03','m1'): ("skip_until: the trigger's complete goes through sink_complete and the trigger is subscribed first: a trigger that completes with no items inside its own subscribe ends the stream", []),
 ('11','C03','m2'): ("amb's complete callback no longer checks is_win: X signals first, a source that has emitted nothing completes, X continues - the result completes and X is torn down", []),
 ('11','C04','m1'): ("Subject::error clears its observer map after notifying (duplicate of C04-m13)", []),
 ('11','C04','m2'): ("amb stores its winner in an AtomicI32 with 0 = undecided, and 0 is a valid serial: the last-listed source wins, then another source's event re-claims the race - the winner's error is lost (same change as C11-m20)", ['C03', 'C11']),
 ('11','C06','m1'): ("new_observer no longer unsubscribes the observer it hands out for an already ended stream: the stream ends between an operator deciding to subscribe a further source and doing it (delivered as C05/m2)", []),
 ('11','C08','m1'): ("the abort flag's read guard stays alive while a task runs (tail-expression temporary): abort from inside a task blocks on its own read lock", ['C07']),
 ('11','C08','m2'): ("stop takes abort.write before the queue mutex (AB-BA with the worker; same mechanism as C07-m12)", ['C07']),
 ('11','C09','m1'): ("bounded backlog (1024) with back-pressure in post: the emitter runs more than a thousand events ahead of a subscriber that waits for it", []),
 ('11','C10','m1'): ("BehaviorSubject takes its hand-over backlog with swap_remove(0): three or more values / a terminal arrive while one subscriber is inside its initial-value callback", ['C12']),
 ('11','C10','m2'): ("ReplaySubject drains its hand-over backlog in one pass and goes live in a separate step: something pushed during the replay, and more while that backlog is handed over", ['C12']),
 ('11','C12','m1'): ("ReplaySubject walks its live history by index instead of copying it: a push that lands inside one subscriber's replay is delivered twice", ['C10']),
 ('11','C12','m2'): ("BehaviorSubject takes the newest buffered event per turn (split_off): two or more pushes land in one subscriber's hand-over window", ['C10']),
 ('11','C13','m1'): ("Subject::fetch_observers prunes unsubscribed observers and the teardown skips the hook when remove finds nothing: the hot source emits after the last leaver's callbacks are cleared but before its teardown runs - the count never reaches 0", []),
 ('11','C13','m2'): ("ReplaySubject stores its inner registration only if the subscriber is still subscribed after registering: the first subscriber of replay() ends while it is being registered", ['C10']),
 ('11','C14','m1'): ("take_last reuses an operator-level buffer when Arc::strong_count says nobody else holds it (check and clone not atomic): two threads subscribe the same value at once", []),
 ('11','C14','m2'): ("retry(n) rebuilt on retry_when with a counting predicate built once per observable value: earlier subscriptions that recovered after a retry use up the budget of later ones", ['C04']),
 ('12','C01','m1'): ("the terminal guard is a std::sync::Once whose is_completed() gates the items: an item that arrives while the terminal callback is still running gets through (and a terminal signalled from inside a terminal callback re-enters call_once)", ['C19']),
 ('12','C06','m2'): ("start_with's prefix loop no longer polls is_subscribed: an endless (or very long) prefix under take / first / contains never stops being pulled", ['C07']),
 ('12','C07','m1'): ("take_last clears its buffer under the write lock while the flush loop still holds the read lock: the subscriber leaves after one flushed item but before the last (take(1) downstream, or unsubscribes itself)", []),
 ('12','C08','m1'): ("the worker reads the abort flag once before cond.wait_while instead of inside the predicate: abort from another thread while the worker is idle in the wait - it goes back to sleep for ever (delivered as C07/m2)", ['C15']),
 ('12','C11','m2'): ("flat_map releases its (shared) mapping function when a stream is finalized: the same flat_map value is subscribed again, or a sibling subscription ends between two outer items", ['C14']),
 ('12','C15','m2'): ("subscribe_on registers its finalizer after posting the subscribe job: the stream ends on the worker before the subscribing thread has registered it", []),
 ('12','C16','m2'): ("sample reads its slot under the read lock and empties it only after the hand-over: a second trigger while the previous sample is still being delivered re-delivers the item", ['C03']),
 ('12','C19','m2'): ("arrival numbering with an off-by-one admits the first item after the terminal: a thread already holds the subscriber while another delivers the terminal", ['C01']),
 ('3','C14','m2'): ("amb's winner cell hoisted out of the per-subscription closure: a second subscription in which a source in a different position signals first", []),
 ('13','C03','m1'): ("zip peeks the queue heads, emits the tuple and pops afterwards: the subscriber's callback feeds the next item into a zipped source from inside the delivery (or two threads both see all queues filled)", ['C11']),
 ('13','C03','m2'): ("skip_until opens its gate when the trigger completes: a trigger that ends without ever emitting (empty, take(0), a subject completed silently), then source items", []),
 ('13','C04','m1'): ("retry_when clears its (shared) predicate on the give-up branch: one subscription ends by giving up, then the same value is subscribed again (directly or through an outer retry) and its source fails", ['C14', 'C07']),
 ('13','C04','m2'): ("on_error_resume_next reports the already handled error when the fallback observable itself fails with a different one", []),
 ('13','C05','m1'): ("Drop for Using skips the unsubscribe while the thread is panicking: the guard's scope is left by unwinding", []),
 ('13','C05','m2'): ("FunctionWrapper::clear uses try_write and gives up when contended: unsubscribe collides with an emitting thread's read lock on the next slot", []),
 ('13','C06','m1'): ("take_while completes downstream before it lets its source go (sink_complete_force): visible only from inside the subscriber's complete callback (re-entrant emission, or a probe there)", []),
 ('13','C06','m2'): ("skip_until marks its trigger complete instead of unsubscribing it once the gate has opened: a trigger that goes on after its first item (subject, interval, repeat)", ['C15']),
 ('13','C07','m1'): ("switch_on_next keeps the read guard of its `emitted` cell across the downstream call (match scrutinee): the subscriber emits into the target from inside a source item's delivery", []),
 ('13','C07','m2'): ("from_iter's producer loop uses filter instead of take_while on is_subscribed: an iterator without an end under an operator that ends the stream early", ['C06']),
 ('13','C08','m1'): ("the worker takes the whole pending queue with mem::take and runs the batch outside the lock: two tasks pending when the worker dequeues, then abort while a non-last task of the batch runs", ['C15']),
 ('13','C08','m2'): ("post runs the task in place when called on the scheduler's own worker thread: a task posts to its own scheduler (nested, overtakes queued tasks, runs after abort)", ['C09']),
 ('13','C09','m1'): ("post from the scheduler's own worker runs in place: a subscriber callback behind observe_on emits back into its source while another event is queued", ['C08']),
 ('13','C09','m2'): ("observe_on's `failed` flag lives per observable value: one subscription sees an upstream error, then the same value is subscribed again (by hand or through retry)", ['C14']),
 ('13','C10','m1'): ("BehaviorSubject goes live in the same step as it takes the first hand-over batch: a push during the hand-over creates a backlog, a further push while that backlog is being delivered overtakes it", ['C12']),
 ('13','C10','m2'): ("ReplaySubject sets the per-subscriber replay mark from a second read of the history length after the replay: a push that lands while the joiner is being handed a non-empty history is dropped as covered", ['C12']),
 ('13','C11','m1'): ("zip peeks, emits, pops afterwards: input A pushes an item while input B's thread is still inside the subscriber delivering tuple k", ['C03']),
 ('13','C11','m2'): ("flat_map releases its (shared) mapping function when the outer source completes: the same value is subscribed again after a completion, or two subscriptions are live and one's outer source completes", ['C14']),
 ('13','C12','m1'): ("BehaviorSubject's hand-over loop takes the buffer and goes live in one step: two pushes buffered during the hand-over, a third push while the first buffered item is in the callback", ['C10']),
 ('13','C12','m2'): ("ReplaySubject's per-subscriber mark becomes a high-water mark in the live branch: producer A appends, B appends, B broadcasts, A broadcasts (dropped for live observers)", []),
 ('13','C13','m1'): ("Subject reads the observer count for its hooks under a second lock after the insert / removal: two first subscribers of ref_count()/replay() register back to back, nobody is told 1", []),
 ('13','C13','m2'): ("publish builds its forwarding Observer once: connect, disconnect (or a terminal), connect again - the second connect does nothing", []),
 ('13','C14','m1'): ("scan clears its (shared) accumulator function after an upstream error: an earlier subscription ended with an error, the same value is subscribed again and delivers two items", ['C07']),
 ('13','C14','m2'): ("debounce builds its scheduler when the operator is built: all subscriptions of the value share one worker, queue and abort flag - a second subscription while the first lives or after it ended", ['C15', 'C16']),
 ('13','C15','m1'): ("timer with a zero duration fires in place after the scheduler was created and never aborts it: Duration::ZERO", []),
 ('13','C15','m2'): ("debounce keeps its value lock across the delivery (if-let temporary): the subscriber - on the worker - pushes into the debounced subject from its callback, the worker blocks on its own lock and never sees the abort", ['C07']),
 ('13','C16','m1'): ("sample clears its cell only after the hand-on: a second trigger notification while the item is being delivered (re-entrant trigger, two trigger threads)", ['C03']),
 ('13','C16','m2'): ("debounce flushes a pending item at completion by reading the cell without taking it: the worker's tick lands while the subscriber is still inside next for the flushed item (slow consumer)", []),
 ('13','C17','m1'): ("switch_on_next marks the source observer complete instead of unsubscribing it once the target has taken over: target emits, source emits once more, the stream ends", ['C06']),
 ('13','C17','m2'): ("Subscription::unsubscribe returns early when !is_subscribed(): directly on a source, terminal first, then unsubscribe, and something keeps the Observer reachable (a callback holding its own Subscription)", ['C05']),
 ('13','C18','m1'): ("poll moves the error out of the shared state with take(): the future was cloned, one handle is polled to Ready(Err), another one afterwards", []),
 ('13','C18','m2'): ("Observer::error / complete each clear the other terminal's slot before claiming their own: a completion and an error from two source threads cancel each other and the future never becomes ready", ['C19', 'C01']),
 ('13','C19','m1'): ("fn_next no longer checks the terminated flag and Subject::error/complete hand out the terminal before clearing the map: Subject::next from a second thread after A's terminal returned while B's terminal callback still runs", ['C01', 'C10']),
 ('13','C19','m2'): ("terminated becomes a phase that lets a repeat of the same terminal kind through, and call_and_clear_if_available calls first and clears afterwards: two errors from two threads, the second while the first callback runs", ['C01']),
 ('14','C03','m1'): ("take_until: the trigger's completion ends the stream and the trigger is subscribed before the source's observer exists: a trigger that completes without an item inside its own subscribe call (empty, just(0).filter(false))", []),
 ('14','C03','m2'): ("sample hands the pending item on when the source completes: the source completes while an item that no tick has released is pending", ['C16']),
 ('14','C04','m2'): ("window_with_count's error handler errors a clone of the first window's subject instead of the open one: at least `count` items before the error, and the open window has its own subscriber (not flattened)", []),
 ('14','C06','m1'): ("sequence_equal unsubscribes its inputs only when no input has completed yet: inputs of different length equal up to the end of the shorter one, the longer one still alive when the verdict falls", []),
 ('14','C06','m2'): ("concat builds the observer of its 2nd and later sources with Observer::new instead of new_observer: the first source completes, a later hot / endless source is running, then the subscription ends from downstream", ['C15', 'C17']),
 ('14','C07','m1'): ("group_by calls an existing group's subject while holding the key map's read lock: a later item of an existing group is being delivered and the subscriber emits an item with a new key into the source", []),
 ('14','C07','m2'): ("window_with_count's terminal handlers take sbj.read then n.read, the item handler holds n.write and takes sbj.write for the closing item: a terminal from another thread while the count-th item of a window is in its decision block", ['C19']),
 ('14','C09','m1'): ("observe_on parks items in a backlog drained by one task that clears its `draining` flag without re-checking the backlog: the emitter's last next overlaps the instant the worker finds the backlog empty", []),
 ('14','C09','m2'): ("a thread-local marker set by subscribe_on's posted task turns a subscribe_on that starts on a marked thread into a pass-through: two stacked subscribe_on (or one inside flat_map under another)", ['C15']),
 ('14','C11','m2'): ("zip checks under a read lock whether every other queue is non-empty before it pushes, and skips the pairing loop when that was false: the i-th items of two inputs arrive from two threads at the same moment", ['C03']),
 ('14','C13','m1'): ("ref_count stores its connection only after the source has been subscribed: a cold source emits synchronously inside the connect and the only subscriber leaves mid-emission (take(k))", ['C06']),
 ('14','C13','m2'): ("replay's connect-once flag is read first and set only after the source has been subscribed: a cold source delivers its terminal inside the first subscriber's connect and a second subscriber arrives from another thread in that window", []),
 ('14','C14','m2'): ("max keeps its running maximum per operator value: a later subscription of the same value whose own maximum is smaller (or which is empty), also under retry", []),
 ('14','C15','m1'): ("interval's posted task returns at once when the subscription has already ended, skipping the abort after its loop: the subscription ends before the new worker has run its first statement (subscribe + unsubscribe at once, timeout's re-armed timers)", ['C16']),
 ('14','C15','m2'): ("timeout creates a second StreamController on the same subscriber, whose hook overwrites the first one's finalizer: the end comes from downstream or from the timeout itself, the source owns a scheduler thread and stays silent afterwards", ['C06']),
 ('14','C16','m1'): ("timeout numbers its items and a timer only fires if its number is still current: the second item passes through the whole handler while the first is still being delivered, the first then arms last (stale number) - no TimedOut ever", []),
 ('14','C16','m2'): ("delay waits with park_timeout and an on_finalize hook unparks the recorded thread: a stream that ends while its thread is not parked leaves an unpark token, the next item pushed by that thread is not delayed", []),
 ('15','C01','m2'): ("the terminal state becomes an AtomicU8 with one bit per terminal kind and each terminal tests only its own bit: an ill-formed source signals both kinds of terminal, subscriber directly on the source", ['C19']),
 ('15','C05','m1'): ("inner_subscribe hands out an inert Subscription when Arc::strong_count says the source kept no handle on its observer: a source that emits synchronously or not at all, sends no terminal and does not keep its observer (never(), create with items only) - is_subscribed() reads false at once", []),
 ('15','C08','m2'): ("the worker treats `Arc::strong_count(data) == 1` like an abort: tasks still queued when the last scheduler handle is dropped are never run although abort was never called", []),
 ('15','C10','m1'): ("Subject keeps an AtomicUsize observer count for a fast path in next; the teardown subtracts unconditionally, also after a terminal has cleared the map: subscribe A, terminal, A unsubscribed (wraps), subscribe B (back to 0), next(v) is skipped", []),
 ('15','C10','m2'): ("two cooperating edits: Observer::unsubscribe returns early once !is_subscribed(), and ReplaySubject::observable drops its explicit inner unsubscribe: a late subscribe to a ReplaySubject that has already ended leaves a registration in the inner Subject", ['C17']),
 ('15','C12','m1'): ("ReplaySubject forwards an item pushed by the subscribing thread at once instead of buffering it during the history hand-over (thread id): a late subscriber's own callback pushes into the subject before the last history item", ['C10']),
 ('15','C12','m2'): ("BehaviorSubject takes its version from a relaxed AtomicU64 and stores (version, value) afterwards: producer A holds ticket 1, B completes ticket 2, a subscriber is handed 2, A then stores and broadcasts 1 - current and filtered out", ['C10']),
 ('15','C18','m1'): ("to_vec records the ThreadId that built the future and its terminal callbacks skip the wake-up on that thread: the emitting thread builds the future, another task polls it once (Pending), then the builder emits the terminal", []),
 ('15','C19','m1'): ("the item path holds only a Weak to the terminated flag and a failed upgrade counts as not terminated: both terminals have reached the subscriber (flag freed), then an item still on its way is delivered", ['C01']),
}

def rows(path):
    out = {}
    if not os.path.exists(path):
        return out
    for l in open(path):
        f = l.rstrip('\n').split('\t')
        if len(f) < 6 or f[0] == 'mutant':
            continue
        out[f[0]] = f   # later rows win
    return out

def main():
    only = sys.argv[sys.argv.index('--round') + 1] if '--round' in sys.argv else None
    results = {'1': {}, '2': {}, '3': {}, '4': {}, '5': {}, '6': {}, '7': {}, '8': {}, '9': {}, '10': {}, '11': {}, '12': {}, '13': {}, '14': {}, '15': {}}
    for p in ['/var/tmp/results1.tsv', os.path.join(S, '_incoming', 'RESULTS.tsv'), '/var/tmp/results2.tsv']:
        results['1'].update(rows(p))
    results['2'].update(rows(os.path.join(S, '_incoming2', 'RESULTS.tsv')))
    results['3'].update(rows(os.path.join(S, '_incoming3', 'RESULTS.tsv')))
    results['4'].update(rows(os.path.join(S, '_incoming4', 'RESULTS.tsv')))
    results['5'].update(rows(os.path.join(S, '_incoming5', 'RESULTS.tsv')))
    results['6'].update(rows(os.path.join(S, '_incoming6', 'RESULTS.tsv')))
    results['7'].update(rows(os.path.join(S, '_incoming7', 'RESULTS.tsv')))
    results['8'].update(rows(os.path.join(S, '_incoming8', 'RESULTS.tsv')))
    results['9'].update(rows(os.path.join(S, '_incoming9', 'RESULTS.tsv')))
    results['10'].update(rows(os.path.join(S, '_incoming10', 'RESULTS.tsv')))
    results['11'].update(rows(os.path.join(S, '_incoming11', 'RESULTS.tsv')))
    results['12'].update(rows(os.path.join(S, '_incoming12', 'RESULTS.tsv')))
    results['13'].update(rows(os.path.join(S, '_incoming13', 'RESULTS.tsv')))
    results['14'].update(rows(os.path.join(S, '_incoming14', 'RESULTS.tsv')))
    results['15'].update(rows(os.path.join(S, '_incoming15', 'RESULTS.tsv')))
    dropped = []
    kept = []
    for rnd, src in (('1', '_incoming'), ('2', '_incoming2'), ('3', '_incoming3'), ('4', '_incoming4'), ('5', '_incoming5'), ('6', '_incoming6'), ('7', '_incoming7'), ('8', '_incoming8'), ('9', '_incoming9'), ('10', '_incoming10'), ('11', '_incoming11'), ('12', '_incoming12'), ('13', '_incoming13'), ('14', '_incoming14'), ('15', '_incoming15')):
        if only is not None and rnd != only:
            continue
        base = os.path.join(S, src)
        if not os.path.isdir(base):
            continue
        for prop in sorted(os.listdir(base)):
            pd = os.path.join(base, prop)
            if not os.path.isdir(pd) or not re.match(r'^C\d\d$', prop):
                continue
            for m in sorted(os.listdir(pd)):
                d = os.path.join(pd, m)
                if not os.path.isdir(d):
                    continue
                key = f'{prop}/{m}'
                r = results[rnd].get(key)
                # m1,m2 = round 1; m3,m4 = round 2; m5,m6 = round 3; m7,m8 = round 4; m9,m10 = round 5; m11,m12 = round 6; m13,m14 = round 7; m15,m16 = round 8; m17,m18 = round 9; m19,m20 = round 10; m21,m22 = round 11; m23,m24 = round 12; m25,m26 = round 13; m27,m28 = round 14; m29,m30 = round 15
                name = f'{prop}-m{int(m[1:]) + 2 * (int(rnd) - 1)}'
                if r is None:
                    dropped.append((name, 'not re-confirmed yet'))
                    continue
                _, head, applies, suite, dw, dwo = r[:6]
                ok_suite = suite.strip() == '179 passed; 0 failed'
                fails_with = bool(re.search(r'[1-9]\d* failed', dw))
                passes_without = dwo.strip() != '' and not re.search(r'[1-9]\d* failed', dwo) and bool(re.search(r'[1-9]\d* passed', dwo))
                if applies != 'yes':
                    dropped.append((name, f'patch no longer applies on {head} (the code it changed was rewritten by a fix) and was not ported'))
                    continue
                if not ok_suite:
                    dropped.append((name, f'the crate\'s own suite does not pass with it on {head}: {suite}'))
                    continue
                if not fails_with:
                    dropped.append((name, f'neutralised by a fix: on {head} its demonstration passes with the patch applied ({dw.strip()})'))
                    continue
                if not passes_without:
                    dropped.append((name, f'its demonstration does not pass on the unchanged tree {head}: {dwo.strip()}'))
                    continue
                dst = os.path.join(S, name)
                os.makedirs(dst, exist_ok=True)
                ported = os.path.exists(os.path.join(d, 'patch.ported.diff'))
                shutil.copy(os.path.join(d, 'patch.ported.diff' if ported else 'patch.diff'), os.path.join(dst, 'patch.diff'))
                if ported:
                    shutil.copy(os.path.join(d, 'patch.diff'), os.path.join(dst, 'patch.original.diff'))
                shutil.copy(os.path.join(d, 'demo.diff'), os.path.join(dst, 'demo.diff'))
                if os.path.exists(os.path.join(d, 'NOTES.md')):
                    shutil.copy(os.path.join(d, 'NOTES.md'), os.path.join(dst, 'NOTES.md'))
                needs, also = INFO.get((rnd, prop, m), ('(see NOTES.md)', []))
                meta = {
                    'id': name,
                    'property': prop,
                    'origin': f'independent sub-agent (round {rnd}) that saw only the property text and a scratch worktree of /repo',
                    'needs_to_manifest': needs,
                    'ported_to_current_head': ported,
                    'confirmed_on_repo_head': head,
                    'what_i_ran': {
                        'apply': 'git apply patch.diff in a scratch worktree of /repo (selftest/confirm_mutants.sh)',
                        'suite_with_patch': suite.strip(),
                        'demo_with_patch': dw.strip(),
                        'demo_without_patch': dwo.strip(),
                    },
                    'also_run': also,
                }
                json.dump(meta, open(os.path.join(dst, 'meta.json'), 'w'), indent=1)
                kept.append(name)
    old = []
    dp = os.path.join(S, 'DROPPED.md')
    if only is not None and os.path.exists(dp):
        # a single round is (re)processed: keep the other rounds' entries
        names = {n for n, _ in dropped}
        for l in open(dp):
            mm = re.match(r'^- \*\*(.+?)\*\*: (.*)$', l.rstrip('\n'))
            if mm and mm.group(1) not in names:
                old.append((mm.group(1), mm.group(2)))
    dropped = old + dropped
    with open(dp, 'w') as f:
        f.write('# Seeded changes that were not kept\n\n')
        for n, why in dropped:
            f.write(f'- **{n}**: {why}\n')
    print('kept', len(kept), kept)
    print('dropped', dropped)

if __name__ == '__main__':
    main()

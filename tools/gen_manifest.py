#!/usr/bin/env python3
"""Regenerates /verif/MANIFEST.json from the table below (kept in one place so that the
manifest stays valid while checks are added)."""
import json, os
V = os.path.dirname(os.path.dirname(os.path.abspath(__file__)))
props = [json.loads(l) for l in open(os.path.join(V, 'properties.jsonl'))]

THREADED_NOTE = ("Trusted base: the rxsim-rt facade models std RwLock/Mutex/Condvar/thread/sleep faithfully "
                 "(both RwLock fairness policies are sampled); lock-operation granularity (code between two facade calls is atomic - "
                 "exact for this crate, which has no atomics and no unsafe); sampling, not enumeration: a clean batch is evidence, not proof.")

CLAIMED = {
 'C08': dict(level='exploration', design='5.8',
   text="Seeded search over interleavings of 1..3 caller threads (post/abort, also from inside tasks) with the real NewThreadScheduler worker, with spurious wake-ups injected; every run's recorded history is checked against the statement (single runner, no overlap, at-most-once, real-time FIFO, nothing taken after abort returned, nothing lost without abort, worker exits within a bounded number of own steps). Exploration is the right level: the property is quantified over schedules, which the simulator samples by the hundred thousand and replays exactly. Fire-and-forget workloads drop every scheduler handle without abort (what was posted must still run).",
   technique='deterministic simulation: seeded random/sticky/PCT scheduling of real threads at lock granularity + injected spurious wake-ups, history oracle'),
 'C09': dict(level='exploration', design='5.9',
   text="Seeded search over interleavings of the emitting thread, the real scheduler worker(s) and an optional unsubscribing thread, for scripted sources (cold or on their own thread) through observe_on / subscribe_on at any position of a short pipeline and stacked twice, subscribed once or twice. Oracle: recorded events equal the script (prefix under unsubscribe), callbacks on one worker thread that is not the emitter, never overlapping, nothing whose emission started after unsubscribe returned; subscribe_on subscribes the source on a worker. Further sources: a real Subject with a re-entrant subscriber (the callback feeds the source from the worker), two emitter threads merged in front of the pipeline, and a long backlog (1100 events pushed while the subscriber is stuck in its first callback).",
   technique='deterministic simulation: seeded scheduling of source/worker/unsubscriber threads + spurious wake-ups, history equality oracle'),
 'C18': dict(level='exploration', design='5.18',
   text="Seeded search over interleavings of Future::poll (driven by a minimal executor on the simulated Mutex/Condvar, with eager re-polls and injected spurious wake-ups) with a source emitting on another thread. Oracle: Ready never before the source's terminal call started, never Pending for a poll started after it returned, exact items/error payload, and no deadlock (= no lost wake-up). The waker may change between polls, and a clone of the future is polled after the original resolved. A second source thread may signal an error of its own at a scheduler-chosen point (a watchdog racing the emitter): one terminal wins, the future must resolve with it, nothing is ready before the first terminal call starts and nothing pending once both have returned.",
   technique='deterministic simulation: seeded scheduling incl. scheduling points at lock release, spurious wake-ups; deadlock = lost wake-up'),
 'C11': dict(level='exploration', design='5.11',
   text="Seeded search over interleavings of 2..3 emitting threads (every input of merge / flat_map / zip / concat / amb on its own simulated thread, with and without take(n) downstream) at lock-operation granularity. Oracle: conservation (multiset, per-input order, zip pairing, concat non-interleaving, single amb winner), take never exceeds n, exactly one complete after the last item, never two terminals. flat_map's outer source may be a merge of two producer threads; under take(n) exactly n items are demanded.",
   technique='deterministic simulation: seeded scheduling of emitting threads, conservation oracle over the recorded history'),
 'C12': dict(level='exploration', design='5.12',
   text="Seeded search over interleavings of 1..2 producer threads, up to two concurrently subscribing threads and an unsubscribing thread on Subject / BehaviorSubject / ReplaySubject. Oracle with conservative stamps: steady observers get everything once in producer order; concurrent subscribers a gap-free suffix (ReplaySubject: everything; BehaviorSubject: a value then every later one); concurrent unsubscribers a gap-free prefix and nothing pushed after unsubscribe returned. Three genuine races of the pinned tree are recorded as open findings with an explains-predicate (push overlaps subscribe). A subscriber behind take(1) leaves from inside its first delivery; at quiescence the subject's observer count must equal the observers that stayed.",
   technique='deterministic simulation: seeded scheduling of producer/subscriber/unsubscriber threads, per-producer suffix/prefix oracle'),
 'C19': dict(level='exploration', design='5.19',
   text="Seeded search over interleavings of 2..3 threads of which at least one signals a terminal while another emits: inputs of merge / flat_map / zip / amb / concat, source vs trigger of take_until / skip_until / sample, and next || complete/error || error on the four subject types, observers direct and behind an operator, with scheduling points inside the subscriber's callbacks. Oracle: at most one terminal; no delivery whose originating emission started after the terminal callback returned.",
   technique='deterministic simulation: seeded scheduling of racing emitters, contract oracle with logical-clock stamps'),
 'C15': dict(level='exploration', design='5.15',
   text="A catalogue of every thread-creating construct (interval, timer, observe_on, subscribe_on, debounce, timeout and nestings) crossed with every ending (terminal, unsubscribe at a virtual instant or immediately, take, first, take_until(timer), amb(timer), retry), single and repeated subscriptions, run on the virtual clock under seeded schedules with and without timer jitter. Oracle: at quiescence no worker thread the crate spawned is alive (a worker blocked on its queue is the simulator's 'leak' outcome), and after the end instant each worker begins at most one further sleep and takes a bounded number of own steps. The catalogue also holds cold sources that deliver everything inside subscribe (under debounce / timeout / observe_on / delay / sample) and nestings (switch_on_next, flat_map of observe_on, concat of timers, zip / combine_latest of intervals, retry over a failing observe_on, window + flat_map). Further constructs: a timer with zero duration; Subject-fed debounce / sample / timeout / observe_on whose subscriber, running on the operator's worker, pushes the next item into the subject from inside its callback.",
   technique='deterministic simulation: virtual discrete-event clock, seeded scheduling, timer-jitter and spurious-wake-up faults; task-table oracle at quiescence'),
 'C16': dict(level='exploration', design='5.16',
   text="Virtual-time runs of interval (new-thread and default scheduler), timer, delay, timeout, sample and debounce over scripted sources with gaps from a tie-free grid, with a slow consumer for timeout and re-subscription for interval/timer. Exact configuration: (virtual instant, event) pairs must equal the closed-form expectation. Jitter configuration (sleeps return up to 30 ms late), reported separately: lower bounds, order, no loss/duplication, and no timeout unless a gap exceeded d. delay is also fed by two producer threads merged into it (per-item latency judged). sample and debounce are also run with a slow consumer (virtual time spent inside every item callback, so that a flush at completion or a second tick can overlap a delivery).",
   technique='deterministic simulation: virtual clock + seeded scheduling of timer/source threads; exact and jitter configurations with separate oracles'),
 'C01': dict(level='exploration', design='5.1',
   text="Generated pipelines over every operator of the crate (nested to depth 3 quick / 5 thorough, also the degenerate pipeline with the subscriber directly on the source) over 1..3 hot / cold / subject sources whose scripts carry the protocol-violation fault (events after the terminal, both terminals, repeated terminals, and re-entrant emission from inside the subscriber's callback), stepped in a generated sequential interleaving inside the simulator. Oracle: the contract automaton next* (error|complete)? at the recording subscriber and is_subscribed()==false after the terminal. The two C19 families (a source misbehaving from two threads at once) are run under the same contract.",
   technique='deterministic simulation (single driver task): generated pipelines x injected protocol-violation faults x step orders; contract automaton',
   note="Single driver task under the simulator runtime (self-deadlocks, livelocks and panics end the run and are left to C07). Sampling of an unbounded program x script space; a clean batch is evidence, not proof."),
 'C05': dict(level='exploration', design='5.5',
   text="Sequential family: generated pipelines over well-formed hot/subject/cold sources with unsubscribe (or dropping a utils::Using guard) injected at every kind of position (before the first item, between events, after the terminal, repeatedly, from inside a callback) while the driver keeps stepping the sources. Threaded family: sources on their own simulated threads (with and without polling is_subscribed), short value-preserving pipelines with and without observe_on, unsubscribe from the main or a third thread at a scheduler-chosen point. Oracle with conservative stamps: no delivery whose emission started after unsubscribe returned; is_subscribed true until the first terminal/unsubscribe and false ever after.",
   technique='deterministic simulation: cancel fault at every script position (sequential) + seeded interleavings of unsubscribe with emitting threads'),
 'C06': dict(level='fault_enumeration', design='5.6',
   text="pipeline = down(probe(cause)) over hot instrumented sources, real Subjects and unbounded producers: the cause (take, first, element_at, take_while, take_until, contains, all, sequence_equal, dematerialize on a Complete/Error item, amb, retry, an erroring input of merge/zip/flat_map, the source's own terminal, external unsubscribe) lands at generated positions and the driver keeps stepping every source afterwards. Oracle: after the probe saw the cause finish (and after the subscriber's terminal / unsubscribe) every emission attempt of a source below it sees is_subscribed()==false, subjects hold no observer, nothing is delivered, unbounded producers stop; amb losers and failed retry attempts as stated. A threaded family registers flat_map inner streams from several producer threads at once and then ends the subscription; shapes for retry over merge (siblings of a failed attempt), amb with an unbounded loser, and an endless start_with prefix.",
   technique='deterministic simulation (single driver task): terminating cause x position enumeration by generation; is_subscribed probes inside instrumented sources',
   note="The instant an operator has all it needs is observed by a pass-through probe stage written like the crate's own map. Sampling, not enumeration of all pipelines."),
 'C17': dict(level='fault_enumeration', design='5.17',
   text="Generated pipelines (optionally with observe_on/subscribe_on) over finite sources; a counting token is cloned into the three subscribe callbacks, every operator closure and every item; endings: complete, error, cancel at every position. The harness then drops its Observable, Subscription and source handles and lets workers drain. Oracle: no owner of a token is left. The family also covers the sharing operators ref_count / replay and streams backed by a ReplaySubject. A quarter of the runs use callbacks that hold a clone of their own Subscription (judged once the caller has unsubscribed, also after a terminal); switch_on_next is among the generated operators.",
   technique='deterministic simulation: ending-cause x position faults; drop-counting token conservation at quiescence',
   note="Only subscriptions that ended are judged. The harness stores token-free copies of recorded items."),
 'C14': dict(level='exploration', design='5.14',
   text="One generated pipeline value (every operator incl. wrapping in retry) over hot sources with per-subscription scripts, cold sources and creation functions is subscribed 2..3 times: sequentially, interleaved (the second subscription starts while the first is mid-stream), and nested from inside a callback. Self-differential oracle: subscriber k's record equals its record when the same AST is built afresh and subscribed once, driven by the same steps; tap side-effect counters equal the sum of the solo runs. A second family starts a nested subscription from inside the first subscriber's callback while a cold synchronous source is emitting - plain and behind ref_count / replay: the first subscriber is unaffected, the nested call returns, the nested subscriber gets the whole sequence (plain, replay) or the rest of it (ref_count). Time-based operators have their own threaded family (debounce, sample, delay, timeout, observe_on, subscribe_on, interval.take, timer, debounce/observe_on under retry) on the exact virtual clock: after a first, solitary subscription (ended by complete, error or unsubscribe) the same value is subscribed again - once, or twice overlapping - and every later subscription must show the same (event, instant relative to its subscribe) timeline.",
   technique='deterministic simulation (single driver task): interleaved sessions sharing one object, self-differential oracle against fresh solo runs',
   note="No reference semantics are assumed: the reference is the crate itself on a fresh pipeline. Sampling, not enumeration."),
 'C10': dict(level='exploration', design='5.10',
   text="Generated call histories (length <= 8 quick / 12 thorough) over {subscribe_i, unsubscribe_i, next(v), error, complete} with up to 3 observers (attached directly, through map, through take(1|2)) on each of the four subject types, including misuse (subscribe after a terminal, double unsubscribe, calls after a terminal), with the HashMap iteration order perturbed. Oracle: a reference state machine that reads the statement literally; after the run every observer's record equals the model's and after every step the subject's registered-observer count equals the model's live set. Where the statement is silent only weak invariants are asserted. One observer may be subscribed from inside another one's terminal callback; a second family runs the ReplaySubject hand-over against pushes / a terminal from another thread. The threaded C12 family is run for plain and replay subjects as well (late / leaving / take(1) subscribers concurrent with pushes and a terminal; observer count at quiescence). The threaded subject family also runs AsyncSubject (nothing before the completion, only the last item, handed out inside the producer's complete() call; an observer that left gets nothing).",
   technique='deterministic simulation (single task): generated operation histories incl. misuse + hash-order fault, checked step by step against an executable reference model',
   note="The reference model is ~150 lines in harness/src/c10.rs. Sampling of the history space; a clean batch is evidence, not proof."),
 'C13': dict(level='exploration', design='5.13',
   text="Sequential family: generated call histories (<= 8 quick / 12 thorough) over {subscribe_i, unsubscribe_i, connect, disconnect, source emits, source terminal} with up to 3 subscribers (direct, map, take(1|2); sharing one Observable value or a fresh observable() each) on publish / ref_count / replay, over a hot instrumented source and over cold sources that emit synchronously inside connect / the first subscribe (incl. a subscriber leaving during the burst). Oracle: reference state machine for deliveries, source-subscription counter and is_subscribed liveness probe after every call (0 before connect, 1 while connected, never 2, 0 after disconnect / last leave, replay = full history once). Threaded family: the first subscribers arrive concurrently and later leave concurrently. Not asserted: reconnection of ref_count after zero, double connect. In the threaded family an emitter thread may go on emitting while some subscribers leave and others stay (stayers see everything, leavers a prefix). publish may be connected again after its connection was unsubscribed (connect, disconnect, connect over a hot source that has not ended).",
   technique='deterministic simulation: generated operation histories against an executable reference model + seeded interleavings of concurrent first subscribers',
   note="Reference model in harness/src/c13.rs. Sampling of the history space."),
 'C03': dict(level='exploration', design='5.3',
   text="Stage-wise refinement: one judged combinator (merge, concat, zip, combine_latest, amb, sequence_equal, take_until, skip_until, sample, flat_map with cold and hot overlapping inner sources) with 1..4 inputs, each a scripted hot / cold / subject source or creation function optionally behind other operators, probes on every input edge (and on every inner observable of flat_map) and on the output edge, driven in generated sequential interleavings. The operator's reference model is evaluated on the recorded input histories (global arrival order, subscription instants) and must allow the recorded output; may-sets where the statement is silent. utils::ready_set_go has its own family; amb is additionally run with its inputs on different simulated threads (single winner). switch_on_next is exercised, not judged. The subscriber may also step a source from inside its next callback (an event reaches the operator while its previous output is still being delivered). Trigger terminals have no effect.",
   technique='deterministic simulation (single driver task): generated arrival orders of several sources; per-operator executable reference models on recorded edge histories',
   note="Reference models in harness/src/c03.rs (about 300 lines); the probe stage is written like the crate's own map. Sampling of scripts x interleavings."),
 'C04': dict(level='fault_enumeration', design='5.4',
   text="Travel family: generated pipelines of non-handler operators (unary operators, merge / zip / concat / combine_latest / sequence_equal siblings, take_until / skip_until / sample with the faulted source on the source side, flat_map with cold inners) over hot / subject / cold sources; the error fault with a unique payload is placed at EVERY position of the faulted source's script (enumerated inside each case) and each variant is compared with the fault-free run cut at the same position: same events before, then the very same payload exactly once as the last event. Handler family: retry(0..4), retry_when (4 predicates), on_error_resume_next (5 resume functions), materialize, materialize+dematerialize over a hot source whose k-th subscription has its own script, against reference models including the source-subscription count and 'the failed attempt is unsubscribed before the next one starts'. amb directly on plain sources is judged when the faulted source signals first; the handler family also runs over a real ReplaySubject (every attempt is handed history and stored error again).",
   technique='deterministic simulation (single driver task): error fault enumerated at every script position, differential + reference-model oracles',
   note="Sampling of pipelines and scripts; inside a case the fault positions are enumerated completely. retry(n) convention as named in the property's anchors."),
 'C07': dict(level='exploration', design='5.7',
   text="The simulator runtime is the oracle (self-deadlock, deadlock, livelock under a fairness rule, panic). Scenario catalogue: every threaded family of C05, C08, C09, C11, C12, C13, C15, C16, C18, C19 and every single-task family of C01, C03, C04, C05, C06, C10, C13, C14, C17 re-run with only this oracle, both RwLock policies sampled equally and one stalled thread in a fifth of the threaded runs; plus the re-entrant family: for every single-source operator (and ref_count / replay) over each of the four subject types, a subscriber callback (next or terminal) that unsubscribes itself, emits into / completes / fails the subject it is being called from, or subscribes a second observer. The re-entrant family re-enters from the subscriber's next / terminal callback, from tap callbacks, from the stage that is handed the inner observables of group_by / window_with_count, and (unsubscribe / subscribe only) from operator closures.",
   technique='deterministic simulation: lock-table runtime detects self-deadlock / deadlock / livelock; seeded scheduling, RwLock-policy and stall faults; re-entrant callbacks',
   note="Trusted base: the lock model of rt/src/exec.rs (writer-preferring = std futex RwLock on Linux: a recursive read behind a queued writer blocks; reader-preferring alternative also sampled). Pipelines that are unbounded by definition (retry(0)/retry_when over an always failing source, endless producers) are not judged for livelock here."),
 # -- more claimed
}
NA = {
 'C02': "pure function of (operator, parameters, input list): there is no schedule, clock, fault or second party in the statement, so it is not a simulation target (DESIGN.md 5.2); deciding it would be input enumeration against a reference interpreter, a different technique",
}

checks = []
for p in props:
    i = p['id']
    if i in CLAIMED:
        c = CLAIMED[i]
        checks.append({
          "property_id": i,
          "quick_cmd": f"bin/check {i} --tier quick",
          "thorough_cmd": f"bin/check {i} --tier thorough",
          "evidence_file": f"evidence/{i}.json",
          "replay_cmd_template": "bin/check replay {path}",
          "engine": "rxsim",
          "level_claimed": {"category": c['level'], "text": c['text'], "design_ref": f"DESIGN.md {c['design']}"},
          "level_note": c.get('note', THREADED_NOTE),
          "technique": c['technique'],
        })
na = []
for p in props:
    i = p['id']
    if i not in CLAIMED:
        na.append({"property_id": i, "reason": NA.get(i, "check not built yet (work in progress; see DESIGN.md section 10 for the order)")})
m = {
 "version": 1,
 "setup_cmd": "bin/check --setup",
 "hooks": {
   "guard": "none needed: instrumentation is applied to a scratch copy of /repo's working tree, /repo itself carries no hooks",
   "enable": "bin/check copies /repo/src to a scratch directory, redirects every `std::` path root to a facade module (sync/thread/time/collections from /verif/rt, the rest re-exported from std), appends read-only accessors, and builds the harness against that copy",
   "baseline_off_cmd": "cd /repo && cargo test --workspace --no-fail-fast --offline",
   "source_commits": [],
   "add_only": True,
 },
 "engines": [{"name": "rxsim", "path": "rt/ harness/ tools/instrument.py bin/check",
              "serves_properties": sorted(CLAIMED.keys()),
              "kind_free_text": "deterministic simulator: real OS threads, one baton, seeded scheduler (random / sticky / PCT), lock+condvar tables with both RwLock policies, virtual discrete-event clock, fault injection (spurious wake-ups, timer jitter, hash-order, protocol-violating sources, error/cancel at every position), recorded decision lists, minimisation and exact replay"}],
 "checks": checks,
 "not_applicable": na,
 "notes": "exit 0 = held on everything explored; exit 1 + 'VIOLATION property=<id> replay=<path>' = violation; exit 2 = harness error (never a verdict). Known findings: /verif/known_findings.json (read-only at run time).",
}
json.dump(m, open(os.path.join(V, 'MANIFEST.json'), 'w'), indent=1)
print('claimed', sorted(CLAIMED.keys()))

#!/usr/bin/env python3
"""Sorts seeded/TABLE.md and rewrites the summary block of DESIGN.md 11.6 (between the markers)."""
import re, collections, statistics, subprocess
V='/verif'
rows=[l.strip() for l in open(V+'/seeded/TABLE.md') if l.startswith('| C')]
hdr=["| seeded change | breaks | check | verdict | runs until caught | violation class / blame |","|---|---|---|---|---|---|"]
def cells(r): return [x.strip() for x in r.strip('|').split('|')]
def key(r):
    c=cells(r); m=re.match(r'C(\d+)-m(\d+)',c[0]); return (int(m.group(1)),int(m.group(2)), 0 if c[1]==c[2] else 1, c[2])
# keep the latest row per (change, check)
latest={}
for r in rows:
    c=cells(r); latest[(c[0],c[2])]=r
import os
kept={d for d in os.listdir(V+'/seeded') if re.match(r'^C\d\d-m\d+$',d)}
rows=sorted([r for (s,_),r in latest.items() if s in kept],key=key)
open(V+'/seeded/TABLE.md','w').write('\n'.join(hdr+rows)+'\n')
own=collections.defaultdict(lambda:[0,0,[]]); cross=[0,0]; misses=[]
for r in rows:
    c=cells(r)
    if c[1]==c[2]:
        own[c[1]][0]+=1
        if c[3]=='caught': own[c[1]][1]+=1; own[c[1]][2].append(int(c[4]))
    else:
        cross[0]+=1
        if c[3]=='caught': cross[1]+=1
        else: misses.append(f"{c[0]} vs {c[2]}")
head=subprocess.check_output(['git','-C','/repo','rev-parse','--short','HEAD']).decode().strip()
s="| property | kept changes | caught by its own check | median runs until caught |\n|---|---|---|---|\n"
for p in sorted(own):
    s+=f"| {p} | {own[p][0]} | {own[p][1]} | {int(statistics.median(own[p][2])) if own[p][2] else '-'} |\n"
s+=f"| all | {sum(v[0] for v in own.values())} | {sum(v[1] for v in own.values())} | |\n"
block=f"""<!-- table-summary:begin -->
`seeded/TABLE.md` (one row per (change, check); summary below; rows were produced with the harness
and the /repo HEAD current when the change was added, the last ones on `{head}`; "runs until caught" counts
the runs of the whole check, families in the order of the spec, so a change caught by a check's
second family shows the first family's full quota first).

{s}
Cross-checks (the `also_run` checks of neighbouring properties named in `meta.json`): {cross[0]} rows,
{cross[1]} caught; misses: {', '.join(misses) if misses else 'none'} (each of those changes is caught by its own
property's check; the neighbouring check simply does not look at that clause).
<!-- table-summary:end -->"""
p=V+'/DESIGN.md'
t=open(p).read()
if '<!-- table-summary:begin -->' in t:
    t=re.sub(r'<!-- table-summary:begin -->.*?<!-- table-summary:end -->', lambda m: block, t, flags=re.S)
else:
    i=t.index("`seeded/TABLE.md` (one row per (change, check); summary below")
    j=t.index("clause).",i)+len("clause).")
    t=t[:i]+block+t[j:]
open(p,'w').write(t)
print(s)
